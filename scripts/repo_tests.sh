#!/bin/bash
# Runs the repository test suite (guard OFF) in directory ${1:-/repo} and compares with BASELINE.json's stable_pass list.
. /verif/scripts/env.sh
export GOCACHE=/verif/out/gocache-baseline
DIR=${1:-/repo}
cd $DIR && $GO test -json -vet=off -count=1 -timeout 25m ./... > /verif/out/repo_tests.$$.json 2>/verif/out/repo_tests.$$.err
python3 - $$ <<'PY'
import json,sys,os
base=set(json.load(open('/root/.vp/BASELINE.json'))['stable_pass'])
ok=set()
for l in open('/verif/out/repo_tests.%s.json'%sys.argv[1]):
    try: d=json.loads(l)
    except: continue
    if d.get('Action')=='pass' and d.get('Test'):
        ok.add(d['Package']+'::'+d['Test'])
missing=sorted(base-ok)
print("baseline",len(base),"passing now",len(base&ok),"missing",len(missing))
for m in missing[:20]: print("  MISSING",m)
for e in ('json','err'):
    try: os.remove('/verif/out/repo_tests.%s.%s'%(sys.argv[1],e))
    except OSError: pass
PY
