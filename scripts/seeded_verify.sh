#!/bin/bash
# usage: seeded_verify.sh <worktree> <Cxx> <name> [extra check ids...]
# Confirms an independently written property-breaking change (suite passes with it, demonstration fails with it and
# passes without it), runs our check(s) against it, and files it under /verif/seeded/<name>/.
. /verif/scripts/env.sh
WT=$1; ID=$2; NAME=$3; shift 3
cd $WT || exit 2
[ -f MUTANT/patch.diff ] || { echo "no MUTANT/patch.diff"; exit 2; }
DEMOCMD=$(python3 -c "import json;print(json.load(open('MUTANT/meta.json')).get('demo_cmd',''))" 2>/dev/null)
PKG=.
case "$DEMOCMD" in *roaring64*) PKG=./roaring64;; *BitSliceIndexing*) PKG=./BitSliceIndexing;; esac
export GOCACHE=/verif/out/gocache-baseline
# rebuild the tree state from the saved patch (git stash is shared between worktrees: never use it here)
git checkout -q -- . 2>/dev/null
git apply MUTANT/patch.diff || { echo "patch does not apply"; exit 2; }
[ -f mutant_demo_test.go ] || [ -f roaring64/mutant_demo_test.go ] || [ -f BitSliceIndexing/mutant_demo_test.go ] || cp MUTANT/demo_test.go $PKG/mutant_demo_test.go
echo "== suite with the change"
SUITE=$(bash /verif/scripts/repo_tests.sh $WT | head -3 | tr '\n' ' ')
echo "$SUITE"
echo "== demo with the change (must fail)"
$GO test -vet=off -count=1 -run TestMutantDemo $PKG > /tmp/demo_with.$$ 2>&1; RC_WITH=$?
tail -3 /tmp/demo_with.$$
echo "== demo without the change (must pass)"
git apply -R MUTANT/patch.diff; $GO test -vet=off -count=1 -run TestMutantDemo $PKG > /tmp/demo_without.$$ 2>&1; RC_WITHOUT=$?; git apply MUTANT/patch.diff
tail -2 /tmp/demo_without.$$
rm -f /tmp/demo_with.$$ /tmp/demo_without.$$
VERDICTS=""
for C in $ID "$@"; do
  V=$(bash /verif/scripts/seeded.sh $WT $C)
  echo "== check: $V"
  VERDICTS="$VERDICTS$V\n"
done
mkdir -p /verif/seeded/$NAME
cp MUTANT/patch.diff MUTANT/demo_test.go /verif/seeded/$NAME/ 2>/dev/null
python3 - "$WT" "$ID" "$NAME" "$SUITE" "$RC_WITH" "$RC_WITHOUT" "$(printf "$VERDICTS")" <<'PY'
import json,sys
wt,pid,name,suite,rcw,rcwo,verdicts=sys.argv[1:8]
try: m=json.load(open(wt+'/MUTANT/meta.json'))
except Exception: m={}
m.update({"property":pid,"name":name,"verified":{"suite_with_change":suite.strip(),"demo_fails_with_change":rcw!="0","demo_passes_without_change":rcwo=="0"},
 "our_checks":[v for v in verdicts.split("\n") if v.strip()],
 "what_we_ran":"scripts/seeded_verify.sh: repo_tests.sh on the worktree with the change; go test -run TestMutantDemo with and without the change; scripts/seeded.sh <worktree> <check> (VERIF_REPO)"})
json.dump(m,open('/verif/seeded/'+name+'/meta.json','w'),indent=1)
print("filed /verif/seeded/"+name, "| suite:",suite.strip(),"| demo fails with:",rcw!="0","passes without:",rcwo=="0")
PY
