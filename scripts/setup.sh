#!/bin/bash
# Build the framework once (warms GOCACHE under /verif/out). Offline.
set -e
. /verif/scripts/env.sh
cd /verif/mc
cp /repo/go.sum go.sum
$GO build -tags verif -o /verif/out/bin/check ./cmd/check
echo setup ok
