#!/bin/bash
# usage: check.sh <Cxx> <quick|thorough> [extra args]   — rebuilds from /repo's working tree, then runs
set -u
. /verif/scripts/env.sh
ID=$1; TIER=${2:-quick}; shift 2 || true
cd /verif/mc || exit 2
# VERIF_REPO (default /repo) lets a seeded change be evaluated in a scratch worktree without touching /repo
REPO=${VERIF_REPO:-/repo}
export VERIF_REPO=$REPO
MODFLAG=""
if [ "$REPO" != "/repo" ]; then
  sed "s#=> /repo#=> $REPO#" go.mod > /verif/out/alt.$$.mod
  cp $REPO/go.sum /verif/out/alt.$$.sum
  MODFLAG="-modfile=/verif/out/alt.$$.mod"
  export VERIF_MODFLAG="$MODFLAG"
else
  cp /repo/go.sum go.sum 2>/dev/null
fi
BIN=/verif/out/bin/check.$$
if ! $GO build $MODFLAG -tags verif -o $BIN ./cmd/check 2>/verif/out/build.$$.log; then
  cat /verif/out/build.$$.log; rm -f /verif/out/build.$$.log
  echo "HARNESS-ERROR build failed"; exit 2
fi
rm -f /verif/out/build.$$.log
case "$ID" in C08|C13) export GODEBUG=clobberfree=1 ;; esac
LOG=/verif/out/run.$$.log
$BIN -prop "$ID" -tier "$TIER" "$@" 2>&1 | tee $LOG
rc=${PIPESTATUS[0]}
# The library starts goroutines of its own (ParOr, ParAnd, the BSI executors); a panic in one of them cannot be
# recovered by the check and ends the process (exit 2, no VIOLATION line). If the process died of a panic or a fatal
# runtime error whose first frame is library code, and it dies the same way when run again, that is a violation of
# the property being checked (the call did not return a result); the crash output is the replay artefact.
crashed_in_library() {
  grep -qE '^(panic:|fatal error:)' "$1" || return 1
  awk '/^goroutine [0-9]+ \[running\]/{f=1;next} f&&/^[^ \t]/{print;exit}' "$1" | grep -q 'github.com/RoaringBitmap/roaring/v2'
}
if [ "$rc" = "2" ] && [ $# -eq 0 ] && crashed_in_library $LOG; then
  $BIN -prop "$ID" -tier "$TIER" > /verif/out/run.$$.again.log 2>&1
  if [ "$?" = "2" ] && crashed_in_library /verif/out/run.$$.again.log; then
    mkdir -p /verif/out/replays
    CR=/verif/out/replays/$ID-crash-$$.txt
    { echo "check: scripts/check.sh $ID $TIER  (the process died inside library code; it did so twice in a row)"; grep -m1 -E '^(panic:|fatal error:)' $LOG; awk '/^goroutine [0-9]+ \[running\]/{f=1} f{print} f&&/^$/{exit}' $LOG | head -40; } > $CR
    echo "  the check process died inside library code: $(grep -m1 -E '^(panic:|fatal error:)' $LOG)"
    echo "VIOLATION property=$ID replay=$CR"
    rc=1
  else
    echo "HARNESS-ERROR the check process died once and not when run again"
  fi
  rm -f /verif/out/run.$$.again.log
fi
rm -f $BIN $LOG /verif/out/alt.$$.mod /verif/out/alt.$$.sum
exit $rc
