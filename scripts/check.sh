#!/bin/bash
# usage: check.sh <Cxx> <quick|thorough> [extra args]   — rebuilds from /repo's working tree, then runs
set -u
. /verif/scripts/env.sh
ID=$1; TIER=${2:-quick}; shift 2 || true
cd /verif/mc || exit 2
# VERIF_REPO (default /repo) lets a seeded change be evaluated in a scratch worktree without touching /repo
REPO=${VERIF_REPO:-/repo}
export VERIF_REPO=$REPO
MODFLAG=""
if [ "$REPO" != "/repo" ]; then
  sed "s#=> /repo#=> $REPO#" go.mod > /verif/out/alt.$$.mod
  cp $REPO/go.sum /verif/out/alt.$$.sum
  MODFLAG="-modfile=/verif/out/alt.$$.mod"
  export VERIF_MODFLAG="$MODFLAG"
else
  cp /repo/go.sum go.sum 2>/dev/null
fi
BIN=/verif/out/bin/check.$$
if ! $GO build $MODFLAG -tags verif -o $BIN ./cmd/check 2>/verif/out/build.$$.log; then
  cat /verif/out/build.$$.log; rm -f /verif/out/build.$$.log
  echo "HARNESS-ERROR build failed"; exit 2
fi
rm -f /verif/out/build.$$.log
case "$ID" in C08|C13) export GODEBUG=clobberfree=1 ;; esac
$BIN -prop "$ID" -tier "$TIER" "$@"
rc=$?
rm -f $BIN /verif/out/alt.$$.mod /verif/out/alt.$$.sum
exit $rc
