#!/usr/bin/env python3
"""Regenerates /verif/MANIFEST.json from the table below (single source of truth)."""
import json, subprocess
P = {
 "C01": ("model_checking", "4.C01", "complete product: (single-chunk content x storage form x sharing mode)^2, (key-alignment pattern)^2, (key-search family)^2 x {And,Or,Xor,AndNot} x {static,in-place} + 3 shortcuts, plus self-application; every case is an execution of the real code compared with a bitset model", "explicit enumeration of operand pairs (explicit-state product) against a reference model"),
 "C02": ("model_checking", "4.C02", "explicit-state BFS over mutation histories of the real Bitmap: fixpoint (all histories of any length) on the 8-cell one-chunk alphabets, depth-bounded on the wide / multi-chunk / many-key alphabets; canonical state = content + chunk kinds, cached cardinalities, COW flags, capacities", "explicit-state BFS to fixpoint over operation histories, reference model per step"),
 "C03": ("model_checking", "4.C03", "every corpus state (all chunk kinds, sharing modes, key layouts) x every scalar query x a boundary argument alphabet; Equals over all corpus pairs; popcount kernels over all lengths 0..N x 5 ops x word alphabet", "exhaustive state x argument product against a sorted-list model"),
 "C04": ("model_checking", "4.C04", "every corpus state x full drains, every early-stop position class, all NextMany buffer-length sequences up to depth 2/3, all HasNext/Next/PeekNext/AdvanceIfNeeded call sequences up to length 4/5 against a model cursor, all unset windows over boundary pairs", "exhaustive enumeration of iterator call sequences (protocol machine) against a model cursor"),
 "C05": ("model_checking", "4.C05", "corpus x 4 writers x 5 decoders x 4 receiver histories; every reader chunking with <= 2 deviations from 'deliver everything' x 2 EOF styles; every writer failure offset x 2 failure modes; depth-1 operation sweep on every decoded bitmap", "deviation-bounded exhaustive enumeration of environment answers (reader chunkings, writer faults) on the real codec"),
 "C06": ("model_checking", "4.C06", "write direction: every corpus state's bytes through an independent decoder written from the format specification that asserts every layout rule; read direction: every corpus content x 9 legal encoder choices x 5 decoders", "exhaustive product against an independent implementation of the format specification"),
 "C09": ("model_checking", "4.C09", "Validate()==nil and an independent invariant walk in every state reached by the C02 closures and every result of the C01 products, plus portable/frozen round trips", "explicit-state BFS + product, invariant checked in every reached state"),
 "C13": ("model_checking", "4.C13", "corpus x {Freeze, FreezeTo into 4 buffer sizes, WriteFrozenTo} byte-compared and parsed by an independent frozen-layout decoder; WriteFrozenTo under every writer failure offset; FrozenView x all mutation sequences <= 2 with an explicit GC event after every step (GODEBUG=clobberfree=1)", "exhaustive product + bounded operation sequences with explicit GC events"),
 "C14": ("model_checking", "4.C14", "size <= README bound and <= BoundSerializedSizeInBytes in every state of the C02 closures (fixpoint on S1), every corpus state, every result of the binary operations over the pools and of AddOffset64/Flip, before and after RunOptimize", "explicit-state BFS to fixpoint + product, invariant in every reached state"),
 "C15": ("model_checking", "4.C15", "all bitmaps over 4/5 keys x 7 chunk shapes x 2 storage modes, and the corpus, x 4 functions x every boundary target in present, absent and gap chunks", "exhaustive state x target product against a linear-scan model"),
 "C16": ("model_checking", "4.C16", "offset pool x ~60 offsets (chunk-aligned and not, across 0 and 2^32); corpus x all boundary flip ranges (static vs in-place); dense conversions of every corpus state; FromDense over 12 lengths x 8 word patterns x copy mode with the caller's words in PROT_READ memory and a depth-1 mutation sweep", "exhaustive product with fault-detecting caller memory"),
}
checks=[]
for pid,(lvl,ref,text,tech) in sorted(P.items()):
    checks.append({
      "property_id":pid,
      "quick_cmd":f"bash scripts/check.sh {pid} quick",
      "thorough_cmd":f"bash scripts/check.sh {pid} thorough",
      "evidence_file":f"/verif/evidence/{pid}.json",
      "replay_cmd_template":f"bash scripts/check.sh {pid} quick -replay {{path}}",
      "engine":"E1-explore",
      "level_claimed":{"category":lvl,"text":text,"design_ref":ref},
      "level_note":"bounded by the stated alphabets/depths (evidence reports exhaustive=true only for completed finite spaces); trusted base: the reference models in mc/internal/model, the read-only hook view, the Go toolchain",
      "technique":tech})
allp=[json.loads(l)["id"] for l in open("/verif/properties.jsonl")]
na=[{"property_id":p,"reason":"check not built yet in this session (work in progress; see DESIGN.md section 4 for the planned procedure)"} for p in allp if p not in P]
hooks=subprocess.check_output(["git","-C","/repo","log","--format=%h","--grep=verif hooks"]).decode().split()
m={"version":1,
 "setup_cmd":"bash /verif/scripts/setup.sh",
 "hooks":{"guard":"verif","enable":"go build -tags verif (scripts/check.sh rebuilds mc/cmd/check against /repo's working tree through a replace directive on every invocation)","baseline_off_cmd":"bash /verif/scripts/baseline_off.sh","source_commits":hooks,"add_only":True},
 "engines":[
  {"name":"E1-explore","path":"mc/internal/explore","serves_properties":sorted(P),"kind_free_text":"explicit-state BFS over operation histories of the real objects (successor = replay of the shortest witness path on fresh objects + one op; canonical key = model content + hidden representation) and complete product enumeration of finite case spaces; hand-written, no external model checker"}],
 "checks":checks,
 "not_applicable":na,
 "notes":"All checks run the real implementation (no separate formal model); traces_validated_against_impl therefore equals transitions. See DESIGN.md."}
json.dump(m,open("/verif/MANIFEST.json","w"),indent=1)
print("checks:",len(checks),"not_applicable:",len(na))
