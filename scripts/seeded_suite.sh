#!/bin/bash
# usage: seeded_suite.sh <id>  — re-confirms that the repository's own test suite passes with seeded change <id>
# applied, in a scratch worktree of /repo's HEAD (removed afterwards). Prints one line.
ID=$1
WT=/tmp/wt/suite-$ID
git -C /repo worktree add -q $WT HEAD || exit 2
if git -C $WT apply /verif/seeded/$ID/patch.diff; then
  echo "$ID $(bash /verif/scripts/repo_tests.sh $WT 2>&1 | head -3 | tr '\n' ' ')"
else
  echo "$ID patch does not apply"
fi
git -C /repo worktree remove --force $WT
