#!/bin/bash
# The official procedure for every filed seeded change: apply it to /repo, run the property's quick check,
# undo it straight afterwards. Prints one line per change. Usage: seeded_all.sh [id ...]
cd /verif
[ -z "$(git -C /repo status --porcelain)" ] || { echo "/repo has uncommitted changes; refusing"; exit 2; }
IDS="$@"; [ -n "$IDS" ] || IDS=$(ls seeded | grep -v RESULTS)
mkdir -p out/seeded_all
for id in $IDS; do
  d=seeded/$id
  [ -f $d/patch.diff ] || continue
  prop=$(python3 -c "import json;print(json.load(open('$d/meta.json'))['property'])")
  checks=$(python3 -c "
import json,os
m=json.load(open('$d/meta.json'))
vs=m.get('our_checks',[])+m.get('our_checks_after_strengthening',[])
cs=[v.split()[1] for v in vs if 'rc=1' in v]
cs=list(dict.fromkeys(cs))
if os.environ.get('SEEDED_ONE_CHECK') and cs:
    cs=[m['property']] if m['property'] in cs else cs[:1]
print(' '.join(cs) or m['property'])")
  git -C /repo apply /verif/$d/patch.diff || { echo "$id: patch does not apply"; continue; }
  for c in $checks; do
    bash scripts/check.sh $c quick > out/seeded_all/$id-$c.log 2>&1; rc=$?
    echo "$id (breaks $prop) check $c: exit $rc, $(grep -c '^VIOLATION' out/seeded_all/$id-$c.log) VIOLATION line(s)"
  done
  git -C /repo checkout -- .
done
[ -z "$(git -C /repo status --porcelain)" ] && echo "/repo clean"
