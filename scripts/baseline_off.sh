#!/bin/bash
# Runs the repository's baseline test suite with the verif guard OFF (no -tags verif).
. /verif/scripts/env.sh
export GOCACHE=/verif/out/gocache-baseline
cd /repo && $GO test -json -vet=off -count=1 -timeout 25m ./...
