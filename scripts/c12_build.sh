#!/bin/bash
# Regenerates the overlay from /repo's working tree and builds check12 (plain and -race).
set -e
. /verif/scripts/env.sh
REPO=${VERIF_REPO:-/repo}
TAG=$(echo "$REPO" | tr '/' '_')
OV=/verif/out/overlay$TAG
BINSUF=""
[ "$REPO" = "/repo" ] || BINSUF="$TAG"
rm -rf $OV; mkdir -p $OV
cd /verif/mc
MODFLAG=${VERIF_MODFLAG:-}
[ "$REPO" = "/repo" ] && cp /repo/go.sum go.sum
$GO build -o /verif/out/bin/chanrewrite ./cmd/chanrewrite
VS=github.com/RoaringBitmap/roaring/v2/vsched
FILES="parallel.go roaring64/parallel64.go roaring64/bsi64.go BitSliceIndexing/bsi.go internal/pools.go"
for f in $FILES; do
  mkdir -p $OV/$(dirname $f)
  /verif/out/bin/chanrewrite $REPO/$f $OV/$f $VS
done
{
  echo '{"Replace": {'
  for f in $FILES; do echo "  \"$REPO/$f\": \"$OV/$f\","; done
  first=1
  for g in /verif/mc/vsched/*.go; do
    [ $first = 1 ] || echo ","
    first=0
    printf '  "%s/vsched/%s": "%s"' $REPO $(basename $g) $g
  done
  echo
  echo '}}'
} > $OV/overlay.json
$GO build $MODFLAG -overlay $OV/overlay.json -tags "verif c12" -o /verif/out/bin/check12$BINSUF ./cmd/check12
$GO build $MODFLAG -race -overlay $OV/overlay.json -tags "verif c12" -o /verif/out/bin/check12race$BINSUF ./cmd/check12
echo c12 build ok
