#!/bin/bash
# Regenerates the overlay from /repo's working tree and builds check12 (plain and -race).
set -e
. /verif/scripts/env.sh
OV=/verif/out/overlay
rm -rf $OV; mkdir -p $OV
cd /verif/mc
cp /repo/go.sum go.sum
$GO build -o /verif/out/bin/chanrewrite ./cmd/chanrewrite
VS=github.com/RoaringBitmap/roaring/v2/vsched
FILES="parallel.go roaring64/parallel64.go roaring64/bsi64.go BitSliceIndexing/bsi.go internal/pools.go"
for f in $FILES; do
  mkdir -p $OV/$(dirname $f)
  /verif/out/bin/chanrewrite /repo/$f $OV/$f $VS
done
{
  echo '{"Replace": {'
  for f in $FILES; do echo "  \"/repo/$f\": \"$OV/$f\","; done
  first=1
  for g in /verif/mc/vsched/*.go; do
    [ $first = 1 ] || echo ","
    first=0
    printf '  "/repo/vsched/%s": "%s"' $(basename $g) $g
  done
  echo
  echo '}}'
} > $OV/overlay.json
$GO build -overlay $OV/overlay.json -tags "verif c12" -o /verif/out/bin/check12 ./cmd/check12
$GO build -race -overlay $OV/overlay.json -tags "verif c12" -o /verif/out/bin/check12race ./cmd/check12
echo c12 build ok
