#!/bin/bash
# usage: seeded.sh <worktree-with-change-applied> <Cxx> [tier]
# Runs one property's check against a scratch tree (VERIF_REPO) and prints the verdict; /repo is untouched.
WT=$1; ID=$2; TIER=${3:-quick}
mkdir -p /verif/out/seeded
LOG=/verif/out/seeded/$(basename $WT)-$ID.log
VERIF_REPO=$WT VERIF_EVIDENCE_DIR=/verif/out/seeded/ev-$(basename $WT) bash /verif/scripts/check.sh $ID $TIER > $LOG 2>&1
rc=$?
echo "$(basename $WT) $ID rc=$rc $(grep -c '^VIOLATION' $LOG) violation line(s); $(grep -m1 -A0 '^  ' $LOG | cut -c1-260)"
