# sourced by every script: offline Go environment, repository's own toolchain
export GOTOOLCHAIN=local GOFLAGS=-mod=mod GOPROXY=off GONOSUMDB='*' GONOSUMCHECK=1 GOFLAGS=-mod=mod
export GOCACHE=/verif/out/gocache
GO=/root/go/pkg/mod/golang.org/toolchain@v0.0.1-go1.24.4.linux-amd64/bin/go
if [ ! -x "$GO" ]; then GO=$(command -v go1.26 || command -v go); fi
export GO
mkdir -p /verif/out/bin /verif/out/replays /verif/evidence
