//go:build c12

// check12 explores the goroutine protocols of the library under the vsched
// controlled scheduler. It is built with -overlay (rewritten library files +
// the vsched package inside the library's module path), optionally with -race.
package main

import (
	"encoding/json"
	"flag"
	"fmt"
	"os"
	"strconv"
	"strings"
	"time"

	"github.com/RoaringBitmap/roaring/v2/vsched"
)

type report struct {
	Driver     string         `json:"driver"`
	Bound      int            `json:"bound"`
	Executions int            `json:"executions"`
	MaxPoints  int            `json:"max_decision_points"`
	MaxSteps   int            `json:"max_scheduling_points"`
	Complete   bool           `json:"complete"`
	Outcomes   map[string]int `json:"outcomes"`
	Race       bool           `json:"race_detector"`
	Failure    string         `json:"failure,omitempty"`
	Schedule   []int          `json:"schedule,omitempty"`
	WallS      float64        `json:"wall_s"`
	// one explored execution, as an example of what the exploration walks through
	SampleTrace []string `json:"sample_trace,omitempty"`
	SampleSched []int    `json:"sample_schedule,omitempty"`
}

func main() {
	tier := flag.String("tier", "quick", "")
	only := flag.String("driver", "", "run only this driver")
	sched := flag.String("schedule", "", "replay this comma separated schedule")
	self := flag.Bool("selftest", false, "run the scheduler self tests")
	list := flag.Bool("list", false, "list driver names")
	budget := flag.Int("budget", 3600, "wall-clock budget per driver in seconds (a cap, never a verdict)")
	flag.Parse()
	enc := json.NewEncoder(os.Stdout)
	if *self {
		probs, log := vsched.SelfTest()
		enc.Encode(map[string]any{"selftest": true, "race_detector": vsched.RaceEnabled, "problems": probs, "log": log})
		if len(probs) > 0 {
			os.Exit(3)
		}
		return
	}
	if *list {
		for _, d := range drivers(*tier, vsched.RaceEnabled) {
			fmt.Println(d.Name)
		}
		return
	}
	for _, d := range drivers(*tier, vsched.RaceEnabled) {
		if *only != "" && d.Name != *only {
			continue
		}
		if *sched != "" {
			var s []int
			for _, x := range strings.Split(*sched, ",") {
				if x = strings.TrimSpace(x); x != "" {
					v, _ := strconv.Atoi(x)
					s = append(s, v)
				}
			}
			f := vsched.Replay(s, 200000, d.Body)
			enc.Encode(map[string]any{"driver": d.Name, "replay": true, "failure": f})
			if f != "" {
				os.Exit(1)
			}
			return
		}
		t0 := time.Now()
		// iterate the deviation bound: 0, 1, ... d.Bound; report the largest bound completed within the cap
		rep := report{Driver: d.Name, Bound: -1, Complete: true, Outcomes: map[string]int{}, Race: vsched.RaceEnabled}
		var r vsched.Result
		deadline := time.Now().Add(time.Duration(*budget) * time.Second)
		for b := 0; b <= d.Bound; b++ {
			left := d.MaxExec - rep.Executions
			if left <= 0 || time.Now().After(deadline) {
				rep.Complete = false
				break
			}
			r = vsched.ExploreUntil(b, left, 200000, deadline, d.Body)
			rep.Executions += r.Executions
			if r.MaxPoints > rep.MaxPoints {
				rep.MaxPoints = r.MaxPoints
			}
			if r.MaxSteps > rep.MaxSteps {
				rep.MaxSteps = r.MaxSteps
			}
			for k, v := range r.Outcomes {
				rep.Outcomes[k] += v
			}
			if r.Failure != nil {
				break
			}
			if !r.Complete {
				rep.Complete = false
				break
			}
			rep.Bound = b
			rep.SampleTrace, rep.SampleSched = r.SampleTrace, r.SampleSched
			if len(rep.SampleTrace) > 80 {
				rep.SampleTrace = rep.SampleTrace[:80]
			}
		}
		rep.WallS = time.Since(t0).Seconds()
		if r.Failure != nil {
			rep.Failure = r.Failure.String()
			rep.Schedule = r.Failure.Schedule
		}
		enc.Encode(rep)
		if r.Failure != nil {
			fmt.Fprintln(os.Stderr, "FAILURE in", d.Name+":", r.Failure.String())
			os.Exit(1) // parked goroutines of the failed execution cannot be reclaimed
		}
	}
}
