//go:build c12

package main

import (
	"bytes"
	"fmt"
	"io"
	"math/big"

	"github.com/RoaringBitmap/roaring/v2"
	bsi32 "github.com/RoaringBitmap/roaring/v2/BitSliceIndexing"
	"github.com/RoaringBitmap/roaring/v2/roaring64"
	"github.com/RoaringBitmap/roaring/v2/vsched"
)

type driver struct {
	Name    string
	Bound   int
	MaxExec int
	Body    func() (string, string)
}

func bm(vals ...uint32) *roaring.Bitmap { return roaring.BitmapOf(vals...) }

func at(key uint32, lows ...uint32) []uint32 {
	var out []uint32
	for _, l := range lows {
		out = append(out, key<<16|l)
	}
	return out
}

func cat(xs ...[]uint32) []uint32 {
	var out []uint32
	for _, x := range xs {
		out = append(out, x...)
	}
	return out
}

// seqOr / seqAnd: sequential references computed without any goroutine code.
func seqOr(bs ...*roaring.Bitmap) *roaring.Bitmap {
	r := roaring.New()
	for _, b := range bs {
		r.Or(b)
	}
	return r
}
func seqAnd(bs ...*roaring.Bitmap) *roaring.Bitmap {
	if len(bs) == 0 {
		return roaring.New()
	}
	r := bs[0].Clone()
	for _, b := range bs[1:] {
		r.And(b)
	}
	return r
}

func sig(b *roaring.Bitmap) string { return fmt.Sprintf("%d:%x", b.GetCardinality(), b.Checksum()) }

// agg32 builds a body for a 32-bit aggregate: inputs are rebuilt per execution,
// the result must equal the sequential fold, validate, and leave the inputs unchanged.
func agg32(mk func() []*roaring.Bitmap, f func(bs []*roaring.Bitmap) *roaring.Bitmap, ref func(bs ...*roaring.Bitmap) *roaring.Bitmap) func() (string, string) {
	return func() (string, string) {
		in := mk()
		before := make([]*roaring.Bitmap, len(in))
		for i, b := range in {
			before[i] = b.Clone()
		}
		want := ref(before...)
		got := f(in)
		if got == nil {
			return "", "nil result"
		}
		if !got.Equals(want) {
			return "", fmt.Sprintf("result differs from the sequential fold: got %s want %s", sig(got), sig(want))
		}
		if err := got.Validate(); err != nil {
			return "", "result fails Validate: " + err.Error()
		}
		for i := range in {
			if !in[i].Equals(before[i]) {
				return "", fmt.Sprintf("input %d was modified", i)
			}
		}
		return sig(got), ""
	}
}

func drivers(tier string, race bool) []driver {
	quick := tier != "thorough"
	// caps are per driver; "bound" in the report is the largest deviation bound fully explored within the cap
	b2, cap2 := 2, 0
	switch {
	case race && quick:
		cap2 = 20000
	case race:
		cap2 = 2000000
	case quick:
		cap2 = 300000
	default:
		cap2 = 20000000
	}
	var ds []driver
	add := func(name string, bound int, body func() (string, string)) {
		ds = append(ds, driver{Name: name, Bound: bound, MaxExec: cap2, Body: body})
	}
	inputs3 := func() []*roaring.Bitmap {
		return []*roaring.Bitmap{
			bm(cat(at(0, 1, 2), at(2, 5), at(4, 7))...),
			bm(cat(at(1, 3), at(9, 1))...),
			bm(at(3, 9)...), // key interior to the partial result inside a work chunk
		}
	}
	for _, w := range []int{1, 2, 3, 0} {
		w := w
		add(fmt.Sprintf("ParOr(workers=%d, 3 bitmaps, interior key)", w), b2, agg32(inputs3, func(bs []*roaring.Bitmap) *roaring.Bitmap { return roaring.ParOr(w, bs...) }, seqOr))
	}
	add("ParOr(workers=2, 2 bitmaps, 2 keys)", b2, agg32(func() []*roaring.Bitmap {
		return []*roaring.Bitmap{bm(at(0, 1)...), bm(at(1, 1)...)}
	}, func(bs []*roaring.Bitmap) *roaring.Bitmap { return roaring.ParOr(2, bs...) }, seqOr))
	add("ParOr(workers=2, all empty)", b2, agg32(func() []*roaring.Bitmap {
		return []*roaring.Bitmap{roaring.New(), roaring.New()}
	}, func(bs []*roaring.Bitmap) *roaring.Bitmap { return roaring.ParOr(2, bs...) }, seqOr))
	andInputs := func() []*roaring.Bitmap {
		return []*roaring.Bitmap{
			bm(cat(at(0, 1, 2, 3), at(1, 5), at(2, 9), at(7, 1))...),
			bm(cat(at(0, 2, 3, 4), at(2, 8), at(5, 1), at(7, 1))...),
		}
	}
	for _, w := range []int{1, 2, 0} {
		w := w
		add(fmt.Sprintf("ParAnd(workers=%d, 3 work items, one empty result)", w), b2, agg32(andInputs, func(bs []*roaring.Bitmap) *roaring.Bitmap { return roaring.ParAnd(w, bs...) }, seqAnd))
		add(fmt.Sprintf("ParHeapOr(workers=%d, shared and single-source keys)", w), b2, agg32(andInputs, func(bs []*roaring.Bitmap) *roaring.Bitmap { return roaring.ParHeapOr(w, bs...) }, seqOr))
	}
	add("ParAnd(workers=2, disjoint keys: zero work items)", b2, agg32(func() []*roaring.Bitmap {
		return []*roaring.Bitmap{bm(at(0, 1)...), bm(at(1, 1)...)}
	}, func(bs []*roaring.Bitmap) *roaring.Bitmap { return roaring.ParAnd(2, bs...) }, seqAnd))
	add("ParHeapOr(workers=2, all empty: zero items)", b2, agg32(func() []*roaring.Bitmap {
		return []*roaring.Bitmap{roaring.New(), roaring.New()}
	}, func(bs []*roaring.Bitmap) *roaring.Bitmap { return roaring.ParHeapOr(2, bs...) }, seqOr))
	add("ParHeapOr(workers=2, 3 bitmaps)", b2, agg32(inputs3, func(bs []*roaring.Bitmap) *roaring.Bitmap { return roaring.ParHeapOr(2, bs...) }, seqOr))
	// keys shared by more than two inputs: the worker folds containers[2:] of the recycled scratch slice, and the
	// feeder refills a recycled slice with as many containers for a later key
	shared4 := func() []*roaring.Bitmap {
		return []*roaring.Bitmap{
			bm(cat(at(0, 1), at(1, 11), at(2, 21), at(3, 31))...),
			bm(cat(at(0, 2), at(1, 12), at(2, 22), at(3, 32))...),
			bm(cat(at(0, 3), at(1, 13), at(2, 23), at(3, 33))...),
			bm(cat(at(0, 4), at(1, 14), at(2, 24), at(3, 34))...),
		}
	}
	for _, w := range []int{1, 2} {
		w := w
		add(fmt.Sprintf("ParHeapOr(workers=%d, 4 keys each shared by 4 bitmaps)", w), b2, agg32(shared4, func(bs []*roaring.Bitmap) *roaring.Bitmap { return roaring.ParHeapOr(w, bs...) }, seqOr))
	}
	// capacity drivers: more items than resultChan (32) / inputChan capacity; bound <= 1
	many := func(n int, shared bool) func() []*roaring.Bitmap {
		return func() []*roaring.Bitmap {
			a, b := roaring.New(), roaring.New()
			for k := 0; k < n; k++ {
				a.Add(uint32(k)<<16 | 1)
				if shared || k%2 == 0 {
					b.Add(uint32(k)<<16 | 2)
				}
			}
			return []*roaring.Bitmap{a, b}
		}
	}
	add("capacity: ParHeapOr(workers=2, 36 single-source + shared keys)", 1, agg32(many(36, false), func(bs []*roaring.Bitmap) *roaring.Bitmap { return roaring.ParHeapOr(2, bs...) }, seqOr))
	add("capacity: ParAnd(workers=1, 36 shared keys)", 1, agg32(many(36, true), func(bs []*roaring.Bitmap) *roaring.Bitmap { return roaring.ParAnd(1, bs...) }, seqAnd))
	add("capacity: ParOr(workers=1, 70 keys: more chunks than channel capacity)", 1, agg32(many(70, false), func(bs []*roaring.Bitmap) *roaring.Bitmap { return roaring.ParOr(16, bs...) }, seqOr))

	// roaring64.ParOr: several buckets, and the single-bucket delegation to the 32-bit ParOr
	or64 := func(mk func() []*roaring64.Bitmap, w int) func() (string, string) {
		return func() (string, string) {
			in := mk()
			want := roaring64.New()
			var before []*roaring64.Bitmap
			for _, b := range in {
				want.Or(b)
				before = append(before, b.Clone())
			}
			got := roaring64.ParOr(w, in...)
			if !got.Equals(want) {
				return "", "roaring64.ParOr result differs from the sequential union"
			}
			if err := got.Validate(); err != nil {
				return "", "roaring64.ParOr result fails Validate: " + err.Error()
			}
			for i := range in {
				if !in[i].Equals(before[i]) {
					return "", fmt.Sprintf("roaring64.ParOr modified input %d", i)
				}
			}
			return fmt.Sprint(got.GetCardinality()), ""
		}
	}
	add("roaring64.ParOr(workers=2, 3 buckets)", b2, or64(func() []*roaring64.Bitmap {
		return []*roaring64.Bitmap{roaring64.BitmapOf(1, 1<<32+1, 3<<32+7), roaring64.BitmapOf(2, 2<<32+1), roaring64.BitmapOf(1<<32 + 9)}
	}, 2))
	add("roaring64.ParOr(workers=2, one bucket: 32-bit ParOr inside)", b2, or64(func() []*roaring64.Bitmap {
		return []*roaring64.Bitmap{roaring64.BitmapOf(5<<32+1, 5<<32+65536+2), roaring64.BitmapOf(5<<32+3, 5<<32+131072)}
	}, 2))

	// capacity: with 33 workers and 132 buckets there are more work items (132) than the two channels and the workers
	// can hold together (66 + 32 + 33 = 131): whoever feeds the work items must not be the one who collects the results
	add("capacity: roaring64.ParOr(workers=33, 132 buckets: more work items than channels and workers hold)", 1, or64(func() []*roaring64.Bitmap {
		a, b := roaring64.New(), roaring64.New()
		for k := uint64(0); k < 132; k++ {
			a.Add(k<<32 | 1)
			if k%2 == 0 {
				b.Add(k<<32 | 2)
			}
		}
		return []*roaring64.Bitmap{a, b}
	}, 33))

	// BSI fan-out / fan-in
	mk64 := func() *roaring64.BSI {
		b := roaring64.NewDefaultBSI()
		b.SetValue(1, 5)
		b.SetValue(2, -3)
		b.SetValue(3, 9)
		b.SetValue(4, 5)
		return b
	}
	arr := func(b *roaring64.Bitmap) string { return fmt.Sprint(b.ToArray()) }
	expect := func(name, got, want string) (string, string) {
		if got != want {
			return "", fmt.Sprintf("%s = %s want %s", name, got, want)
		}
		return got, ""
	}
	two70 := new(big.Int).Lsh(big.NewInt(1), 70)
	add("roaring64.BSI CompareBigValue (per-column goroutine path, 2 workers)", b2, func() (string, string) {
		b := mk64()
		b.SetBigValue(9, two70) // wider than 64 bits: the int64 plane path does not apply
		return expect("CompareBigValue(GE 5)", arr(b.CompareBigValue(2, roaring64.GE, big.NewInt(5), nil, nil)), "[1 3 4 9]")
	})
	add("roaring64.BSI IntersectAndTranspose (3 workers)", b2, func() (string, string) {
		b := mk64()
		b.SetValue(2, 7)
		return expect("IntersectAndTranspose", arr(b.IntersectAndTranspose(3, nil)), "[5 7 9]")
	})
	add("roaring64.BSI TransposeWithCounts (2 workers)", b2, func() (string, string) {
		b := mk64()
		b.SetValue(2, 7)
		r := b.TransposeWithCounts(2, nil, roaring64.BitmapOf(5, 7, 9))
		v5, _ := r.GetValue(5)
		v7, _ := r.GetValue(7)
		v9, _ := r.GetValue(9)
		return expect("TransposeWithCounts", fmt.Sprint(v5, v7, v9, r.GetCardinality()), "2 1 1 3")
	})
	add("roaring64.BSI SumBigValues", b2, func() (string, string) {
		s, c := mk64().SumBigValues(nil)
		return expect("SumBigValues", fmt.Sprint(s, c), "16 4")
	})
	add("roaring64.BSI ParOr (2 workers)", b2, func() (string, string) {
		b := mk64()
		o := roaring64.NewDefaultBSI()
		o.SetValue(10, 1<<20)
		b.ParOr(2, o)
		v1, _ := b.GetValue(2)
		v2, _ := b.GetValue(10)
		return expect("ParOr", fmt.Sprint(v1, v2, b.GetCardinality()), fmt.Sprint(-3, 1<<20, 5))
	})
	add("roaring64.BSI Clone / NewBSIRetainSet", b2, func() (string, string) {
		b := mk64()
		c := b.NewBSIRetainSet(roaring64.BitmapOf(1, 2, 4))
		v, _ := c.GetValue(2)
		return expect("NewBSIRetainSet", fmt.Sprint(v, c.GetCardinality(), c.Equals(b)), "-3 3 false")
	})
	mk32 := func() *bsi32.BSI {
		b := bsi32.NewDefaultBSI()
		b.SetValue(1, 5)
		b.SetValue(2, 3)
		b.SetValue(3, 9)
		return b
	}
	add("BitSliceIndexing.BSI CompareValue (2 workers)", b2, func() (string, string) {
		return expect("CompareValue(GE 5)", fmt.Sprint(mk32().CompareValue(2, bsi32.GE, 5, 0, nil).ToArray()), "[1 3]")
	})
	add("BitSliceIndexing.BSI MinMax (2 workers)", b2, func() (string, string) {
		b := mk32()
		return expect("MinMax", fmt.Sprint(b.MinMax(2, bsi32.MIN, nil), b.MinMax(2, bsi32.MAX, nil)), "3 9")
	})
	add("BitSliceIndexing.BSI Sum (atomic adds)", b2, func() (string, string) {
		s, c := mk32().Sum(nil)
		return expect("Sum", fmt.Sprint(s, c), "17 3")
	})
	add("BitSliceIndexing.BSI ClearValues", b2, func() (string, string) {
		b := mk32()
		b.ClearValues(roaring.BitmapOf(2))
		_, ok := b.GetValue(2)
		v, _ := b.GetValue(3)
		return expect("ClearValues", fmt.Sprint(ok, v, b.GetCardinality()), "false 9 2")
	})
	// ParOr: one goroutine per plane of the result; the inputs may reach all, some or none of the target's planes
	add("BitSliceIndexing.BSI ParOr (inputs as wide as the target)", b2, func() (string, string) {
		b := mk32()
		o := bsi32.NewDefaultBSI()
		o.SetValue(10, 12)
		b.ParOr(2, o)
		v1, _ := b.GetValue(3)
		v2, _ := b.GetValue(10)
		return expect("ParOr", fmt.Sprint(v1, v2, b.GetCardinality()), "9 12 4")
	})
	add("BitSliceIndexing.BSI ParOr (narrow inputs into a wider target)", b2, func() (string, string) {
		b := mk32()
		b.SetValue(4, 1000) // 10 planes
		o1, o2 := bsi32.NewDefaultBSI(), bsi32.NewDefaultBSI()
		o1.SetValue(10, 1)
		o2.SetValue(11, 2)
		b.ParOr(2, o1, o2)
		v1, _ := b.GetValue(4)
		v2, _ := b.GetValue(10)
		v3, _ := b.GetValue(11)
		return expect("ParOr", fmt.Sprint(v1, v2, v3, b.GetCardinality()), "1000 1 2 6")
	})
	add("BitSliceIndexing.BSI ParOr (no inputs)", b2, func() (string, string) {
		b := mk32()
		b.ParOr(2)
		v, _ := b.GetValue(3)
		return expect("ParOr()", fmt.Sprint(v, b.GetCardinality()), "9 3")
	})
	add("roaring64.BSI ParOr (narrow inputs into a wider target, no inputs)", b2, func() (string, string) {
		b := mk64()
		b.SetValue(7, 1<<30)
		o1, o2 := roaring64.NewDefaultBSI(), roaring64.NewDefaultBSI()
		o1.SetValue(10, 1)
		o2.SetValue(11, -2)
		b.ParOr(2, o1, o2)
		b.ParOr(2)
		v1, _ := b.GetValue(7)
		v2, _ := b.GetValue(10)
		v3, _ := b.GetValue(11)
		v4, _ := b.GetValue(2)
		return expect("ParOr", fmt.Sprint(v1, v2, v3, v4, b.GetCardinality()), fmt.Sprint(1<<30, 1, -2, -3, 7))
	})
	add("roaring64.BSI ParOr (narrow input whose planes are copy-on-write bitmaps)", b2, func() (string, string) {
		// planes installed through FromBitmaps may be copy-on-write bitmaps; cloning such a bitmap writes to it, and
		// the sign plane of a narrow input is handed to every plane goroutine above its width
		mkCOW := func(vs ...uint64) roaring64.Bitmap {
			b := roaring64.New()
			b.SetCopyOnWrite(true)
			b.AddMany(vs)
			return *b
		}
		narrow := roaring64.NewDefaultBSI()
		narrow.FromBitmaps([]roaring64.Bitmap{mkCOW(1), mkCOW(1), mkCOW(1)}) // column 1 holds -1
		wide := roaring64.NewDefaultBSI()
		wide.SetValue(2, 1<<5)
		res := roaring64.NewDefaultBSI()
		res.ParOr(2, narrow, wide)
		v1, _ := res.GetValue(1)
		v2, _ := res.GetValue(2)
		return expect("ParOr", fmt.Sprint(v1, v2, res.GetCardinality()), "-1 32 2")
	})
	add("BitSliceIndexing.BSI ClearValues(own existence bitmap)", b2, func() (string, string) {
		b := mk32()
		b.ClearValues(b.GetExistenceBitmap()) // the found set is the bitmap the call itself clears
		b.SetValue(3, 4)
		v, ok := b.GetValue(3)
		return expect("ClearValues(own existence bitmap); SetValue(3,4)", fmt.Sprint(ok, v, b.GetCardinality()), "true 4 1")
	})
	add("BitSliceIndexing.BSI TransposeWithCounts (2 workers)", b2, func() (string, string) {
		b := mk32()
		b.SetValue(4, 5)
		r := b.TransposeWithCounts(2, nil)
		v5, _ := r.GetValue(5)
		v9, _ := r.GetValue(9)
		return expect("TransposeWithCounts", fmt.Sprint(v5, v9, r.GetCardinality()), "2 1 3")
	})

	// independent bitmaps decoded concurrently through the process-wide reader-adapter pool
	src1, _ := bm(cat(at(0, 1, 2, 3), at(5, 9))...).ToBytes()
	src2, _ := bm(at(7, 70, 71)...).ToBytes()
	src3 := func() []byte {
		b := roaring.New()
		b.AddRange(100, 70000)
		b.RunOptimize()
		d, _ := b.ToBytes()
		return d
	}()
	decode := func(n int) func() (string, string) {
		srcs := [][]byte{src1, src2, src3}[:n]
		return func() (string, string) {
			var wg vsched.WaitGroup
			res := make([]*roaring.Bitmap, n)
			errs := make([]error, n)
			for i := 0; i < n; i++ {
				i := i
				wg.Add(1)
				vsched.Go(func() {
					defer wg.Done()
					b := roaring.New()
					_, errs[i] = b.ReadFrom(&yieldReader{r: bytes.NewReader(srcs[i])})
					res[i] = b
				})
			}
			wg.Wait()
			out := ""
			for i := 0; i < n; i++ {
				if errs[i] != nil {
					return "", fmt.Sprintf("decoding stream %d failed: %v", i, errs[i])
				}
				want := roaring.New()
				want.ReadFrom(bytes.NewReader(srcs[i]))
				if !res[i].Equals(want) {
					return "", fmt.Sprintf("bitmap %d decoded concurrently differs from its source", i)
				}
				out += sig(res[i]) + " "
			}
			return out, ""
		}
	}
	add("pool: 2 concurrent ReadFrom through the adapter pool", b2, decode(2))
	add("pool: 3 concurrent ReadFrom through the adapter pool", 1, decode(3))
	return ds
}

// yieldReader yields to the scheduler on every Read, so decoders interleave at every read.
type yieldReader struct{ r io.Reader }

func (y *yieldReader) Read(p []byte) (int, error) {
	vsched.Yield()
	return y.r.Read(p)
}
