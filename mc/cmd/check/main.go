// check runs the decision procedure of one property against /repo's working tree.
package main

import (
	"flag"
	"fmt"
	"os"
	"runtime/debug"
	"strconv"
	"time"

	"verifmc/internal/env"
	"verifmc/internal/ev"
	"verifmc/internal/props"
)

func main() {
	prop := flag.String("prop", "", "property id (C01..C20)")
	tier := flag.String("tier", "quick", "quick|thorough")
	replay := flag.String("replay", "", "replay file")
	child := flag.String("child", "", "internal: run as a cage worker for the named case family")
	from := flag.Int("from", 0, "internal: first case id of a cage worker")
	stride := flag.Int("stride", 1, "internal: case id stride of a cage worker")
	until := flag.Int("until", 1<<30, "internal: a cage worker stops before this case id")
	flag.Parse()
	debug.SetGCPercent(400)
	if t := os.Getenv("VERIF_TIER"); t != "" && *tier == "" {
		*tier = t
	}
	if *child != "" {
		fam, ok := props.CageFamilies[*child]
		if !ok {
			fmt.Println("unknown cage family", *child)
			os.Exit(2)
		}
		total, run := fam(*tier)
		if *until < total {
			total = *until
		}
		env.ChildLoop(total, *from, *stride, 6<<30, run)
		return
	}
	d, ok := props.Drivers[*prop]
	if !ok {
		fmt.Println("unknown property", *prop, "known:", props.IDs())
		os.Exit(2)
	}
	seed, _ := strconv.ParseInt(os.Getenv("VERIF_SEED"), 10, 64)
	var doc *ev.ReplayDoc
	if *replay != "" {
		var err error
		doc, err = ev.LoadReplay(*replay)
		if err != nil {
			fmt.Println("cannot load replay:", err)
			os.Exit(2)
		}
		if doc.Tier == "quick" || doc.Tier == "thorough" {
			*tier = doc.Tier // case indices refer to the bounds of the tier that found the case
		}
	}
	r := ev.NewRun(*prop, *tier, d.Level, seed)
	c := &props.Ctx{R: r, Tier: *tier, Start: time.Now()}
	if doc != nil {
		c.Replay = doc
		r.ReplayMode = true
	}
	// A thorough run first covers the quick bounds completely: whatever its own, larger products
	// manage within their deadlines, the thorough tier is then never weaker than the quick one.
	// (C12 is exempt: its thorough tier runs the same drivers with larger budgets and bounds.)
	if *tier == "thorough" && doc == nil && *prop != "C12" && os.Getenv("VERIF_NO_QUICK_PHASE") == "" {
		r.Phase = "quick"
		d.Run(&props.Ctx{R: r, Tier: "quick", Start: time.Now()})
		r.Phase = ""
	}
	d.Run(c)
	os.Exit(r.Finish())
}
