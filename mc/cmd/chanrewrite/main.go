// chanrewrite rewrites the concurrency constructs of a Go source file into calls
// to the vsched shim. It refuses (exit 1) on a construct it does not know and
// asserts that no channel / go / select / sync token survives.
//
// usage: chanrewrite <in.go> <out.go> <vsched import path>
package main

import (
	"bytes"
	"fmt"
	"go/ast"
	"go/format"
	"go/parser"
	"go/token"
	"os"
	"strconv"
	"strings"
)

var vs = "vsched"

func die(format string, a ...any) {
	fmt.Fprintf(os.Stderr, "chanrewrite: "+format+"\n", a...)
	os.Exit(1)
}

func sel(name string) ast.Expr {
	return &ast.SelectorExpr{X: ast.NewIdent(vs), Sel: ast.NewIdent(name)}
}

func call(fun ast.Expr, args ...ast.Expr) *ast.CallExpr { return &ast.CallExpr{Fun: fun, Args: args} }

func method(x ast.Expr, name string, args ...ast.Expr) *ast.CallExpr {
	return call(&ast.SelectorExpr{X: x, Sel: ast.NewIdent(name)}, args...)
}

// chanType: chan T -> *vsched.Chan[T]
func chanType(t *ast.ChanType) ast.Expr {
	return &ast.StarExpr{X: &ast.IndexExpr{X: sel("Chan"), Index: rewriteExpr(t.Value)}}
}

func isPkgSel(e ast.Expr, pkg, name string) bool {
	s, ok := e.(*ast.SelectorExpr)
	if !ok {
		return false
	}
	id, ok := s.X.(*ast.Ident)
	return ok && id.Name == pkg && s.Sel.Name == name
}

// rewriteExpr rewrites an expression bottom-up.
func rewriteExpr(e ast.Expr) ast.Expr {
	if e == nil {
		return nil
	}
	switch x := e.(type) {
	case *ast.ChanType:
		return chanType(x)
	case *ast.UnaryExpr:
		x.X = rewriteExpr(x.X)
		if x.Op == token.ARROW {
			return method(x.X, "Recv")
		}
		return x
	case *ast.CallExpr:
		// make(chan T[, n])
		if id, ok := x.Fun.(*ast.Ident); ok && id.Name == "make" && len(x.Args) >= 1 {
			if ct, ok := x.Args[0].(*ast.ChanType); ok {
				var n ast.Expr = &ast.BasicLit{Kind: token.INT, Value: "0"}
				if len(x.Args) == 2 {
					n = rewriteExpr(x.Args[1])
				}
				return call(&ast.IndexExpr{X: sel("NewChan"), Index: rewriteExpr(ct.Value)}, n)
			}
		}
		if id, ok := x.Fun.(*ast.Ident); ok && id.Name == "close" && len(x.Args) == 1 {
			return method(rewriteExpr(x.Args[0]), "Close")
		}
		if isPkgSel(x.Fun, "runtime", "NumCPU") {
			return call(sel("NumCPU"))
		}
		if isPkgSel(x.Fun, "atomic", "AddInt64") {
			x.Fun = sel("AtomicAddInt64")
		}
		x.Fun = rewriteExpr(x.Fun)
		for i := range x.Args {
			x.Args[i] = rewriteExpr(x.Args[i])
		}
		return x
	case *ast.SelectorExpr:
		if isPkgSel(x, "sync", "WaitGroup") {
			return sel("WaitGroup")
		}
		if isPkgSel(x, "sync", "Pool") {
			return sel("Pool")
		}
		x.X = rewriteExpr(x.X)
		return x
	case *ast.StarExpr:
		x.X = rewriteExpr(x.X)
		return x
	case *ast.ParenExpr:
		x.X = rewriteExpr(x.X)
		return x
	case *ast.BinaryExpr:
		x.X, x.Y = rewriteExpr(x.X), rewriteExpr(x.Y)
		return x
	case *ast.IndexExpr:
		x.X, x.Index = rewriteExpr(x.X), rewriteExpr(x.Index)
		return x
	case *ast.SliceExpr:
		x.X, x.Low, x.High, x.Max = rewriteExpr(x.X), rewriteExpr(x.Low), rewriteExpr(x.High), rewriteExpr(x.Max)
		return x
	case *ast.TypeAssertExpr:
		x.X, x.Type = rewriteExpr(x.X), rewriteExpr(x.Type)
		return x
	case *ast.KeyValueExpr:
		x.Key, x.Value = rewriteExpr(x.Key), rewriteExpr(x.Value)
		return x
	case *ast.CompositeLit:
		x.Type = rewriteExpr(x.Type)
		for i := range x.Elts {
			x.Elts[i] = rewriteExpr(x.Elts[i])
		}
		return x
	case *ast.FuncLit:
		rewriteFuncType(x.Type)
		rewriteBlock(x.Body)
		return x
	case *ast.ArrayType:
		x.Len, x.Elt = rewriteExpr(x.Len), rewriteExpr(x.Elt)
		return x
	case *ast.MapType:
		x.Key, x.Value = rewriteExpr(x.Key), rewriteExpr(x.Value)
		return x
	case *ast.FuncType:
		rewriteFuncType(x)
		return x
	case *ast.StructType:
		rewriteFields(x.Fields)
		return x
	case *ast.InterfaceType:
		rewriteFields(x.Methods)
		return x
	case *ast.Ellipsis:
		x.Elt = rewriteExpr(x.Elt)
		return x
	case *ast.Ident, *ast.BasicLit:
		return x
	}
	die("unknown expression node %T", e)
	return nil
}

func rewriteFields(fl *ast.FieldList) {
	if fl == nil {
		return
	}
	for _, f := range fl.List {
		f.Type = rewriteExpr(f.Type)
	}
}

func rewriteFuncType(ft *ast.FuncType) {
	rewriteFields(ft.Params)
	rewriteFields(ft.Results)
}

func rewriteBlock(b *ast.BlockStmt) {
	if b == nil {
		return
	}
	for i := range b.List {
		b.List[i] = rewriteStmt(b.List[i])
	}
}

var tmpN int

func tmp(prefix string) *ast.Ident {
	tmpN++
	return ast.NewIdent(fmt.Sprintf("_vs%s%d", prefix, tmpN))
}

func define(lhs []ast.Expr, rhs ...ast.Expr) ast.Stmt {
	return &ast.AssignStmt{Lhs: lhs, Tok: token.DEFINE, Rhs: rhs}
}

func rewriteStmt(s ast.Stmt) ast.Stmt {
	switch x := s.(type) {
	case nil:
		return nil
	case *ast.SendStmt:
		return &ast.ExprStmt{X: method(rewriteExpr(x.Chan), "Send", rewriteExpr(x.Value))}
	case *ast.GoStmt:
		// go f(a, b) -> { _f := f; _a, _b := a, b; vsched.Go(func() { _f(_a, _b) }) }  (eager evaluation, as Go does)
		c := x.Call
		var pre []ast.Stmt
		var fun ast.Expr
		if fl, ok := c.Fun.(*ast.FuncLit); ok {
			fun = rewriteExpr(fl)
		} else {
			f := tmp("f")
			pre = append(pre, define([]ast.Expr{f}, rewriteExpr(c.Fun)))
			fun = f
		}
		var args []ast.Expr
		for _, a := range c.Args {
			t := tmp("a")
			pre = append(pre, define([]ast.Expr{t}, rewriteExpr(a)))
			args = append(args, t)
		}
		inner := &ast.CallExpr{Fun: fun, Args: args, Ellipsis: c.Ellipsis}
		body := &ast.FuncLit{Type: &ast.FuncType{Params: &ast.FieldList{}}, Body: &ast.BlockStmt{List: []ast.Stmt{&ast.ExprStmt{X: inner}}}}
		pre = append(pre, &ast.ExprStmt{X: call(sel("Go"), body)})
		return &ast.BlockStmt{List: pre}
	case *ast.SelectStmt:
		return rewriteSelect(x)
	case *ast.RangeStmt:
		x.X = rewriteExpr(x.X)
		rewriteBlock(x.Body)
		if isChanName(x.X) {
			// for v := range ch { body } -> for { v, ok := ch.Recv2(); if !ok { break }; body }
			if x.Value != nil {
				die("range over channel with two variables")
			}
			ok := tmp("ok")
			var key ast.Expr = ast.NewIdent("_")
			if x.Key != nil {
				key = x.Key
			}
			tok := x.Tok
			if tok != token.DEFINE {
				tok = token.ASSIGN
			}
			var recv ast.Stmt
			if tok == token.DEFINE {
				recv = define([]ast.Expr{key, ok}, method(x.X, "Recv2"))
			} else {
				die("range over channel with assignment form")
			}
			brk := &ast.IfStmt{Cond: &ast.UnaryExpr{Op: token.NOT, X: ok}, Body: &ast.BlockStmt{List: []ast.Stmt{&ast.BranchStmt{Tok: token.BREAK}}}}
			body := append([]ast.Stmt{recv, brk}, x.Body.List...)
			return &ast.ForStmt{Body: &ast.BlockStmt{List: body}}
		}
		return x
	case *ast.AssignStmt:
		// v, ok := <-ch
		if len(x.Lhs) == 2 && len(x.Rhs) == 1 {
			if u, ok := x.Rhs[0].(*ast.UnaryExpr); ok && u.Op == token.ARROW {
				x.Rhs[0] = method(rewriteExpr(u.X), "Recv2")
				for i := range x.Lhs {
					x.Lhs[i] = rewriteExpr(x.Lhs[i])
				}
				return x
			}
		}
		for i := range x.Lhs {
			x.Lhs[i] = rewriteExpr(x.Lhs[i])
		}
		for i := range x.Rhs {
			x.Rhs[i] = rewriteExpr(x.Rhs[i])
		}
		return x
	case *ast.ExprStmt:
		x.X = rewriteExpr(x.X)
		return x
	case *ast.DeclStmt:
		rewriteDecl(x.Decl)
		return x
	case *ast.BlockStmt:
		rewriteBlock(x)
		return x
	case *ast.IfStmt:
		x.Init = rewriteStmt(x.Init)
		x.Cond = rewriteExpr(x.Cond)
		rewriteBlock(x.Body)
		x.Else = rewriteStmt(x.Else)
		return x
	case *ast.ForStmt:
		x.Init = rewriteStmt(x.Init)
		x.Cond = rewriteExpr(x.Cond)
		x.Post = rewriteStmt(x.Post)
		rewriteBlock(x.Body)
		return x
	case *ast.SwitchStmt:
		x.Init = rewriteStmt(x.Init)
		x.Tag = rewriteExpr(x.Tag)
		rewriteBlock(x.Body)
		return x
	case *ast.TypeSwitchStmt:
		x.Init = rewriteStmt(x.Init)
		x.Assign = rewriteStmt(x.Assign)
		rewriteBlock(x.Body)
		return x
	case *ast.CaseClause:
		for i := range x.List {
			x.List[i] = rewriteExpr(x.List[i])
		}
		for i := range x.Body {
			x.Body[i] = rewriteStmt(x.Body[i])
		}
		return x
	case *ast.ReturnStmt:
		for i := range x.Results {
			x.Results[i] = rewriteExpr(x.Results[i])
		}
		return x
	case *ast.DeferStmt:
		x.Call = rewriteExpr(x.Call).(*ast.CallExpr)
		return x
	case *ast.IncDecStmt:
		x.X = rewriteExpr(x.X)
		return x
	case *ast.LabeledStmt:
		x.Stmt = rewriteStmt(x.Stmt)
		return x
	case *ast.BranchStmt, *ast.EmptyStmt:
		return x
	}
	die("unknown statement node %T", s)
	return nil
}

// chanNames: identifiers known to denote channels in this file.
var chanNames = map[string]bool{}

func isChanName(e ast.Expr) bool {
	id, ok := e.(*ast.Ident)
	return ok && chanNames[id.Name]
}

func collectChanNames(f *ast.File) {
	ast.Inspect(f, func(n ast.Node) bool {
		switch x := n.(type) {
		case *ast.Field:
			if _, ok := x.Type.(*ast.ChanType); ok {
				for _, nm := range x.Names {
					chanNames[nm.Name] = true
				}
			}
		case *ast.AssignStmt:
			for i, r := range x.Rhs {
				if c, ok := r.(*ast.CallExpr); ok {
					if id, ok := c.Fun.(*ast.Ident); ok && id.Name == "make" && len(c.Args) > 0 {
						if _, ok := c.Args[0].(*ast.ChanType); ok && i < len(x.Lhs) {
							if l, ok := x.Lhs[i].(*ast.Ident); ok {
								chanNames[l.Name] = true
							}
						}
					}
				}
			}
		}
		return true
	})
}

// rewriteSelect supports exactly: two receive cases, no default.
func rewriteSelect(s *ast.SelectStmt) ast.Stmt {
	if len(s.Body.List) != 2 {
		die("select with %d cases is not supported", len(s.Body.List))
	}
	type cs struct {
		ch   ast.Expr
		name ast.Expr
		body []ast.Stmt
	}
	var cases []cs
	for _, c := range s.Body.List {
		cc := c.(*ast.CommClause)
		if cc.Comm == nil {
			die("select with default is not supported")
		}
		var recv *ast.UnaryExpr
		var name ast.Expr
		switch m := cc.Comm.(type) {
		case *ast.AssignStmt:
			if len(m.Lhs) != 1 || len(m.Rhs) != 1 || m.Tok != token.DEFINE {
				die("unsupported select receive form")
			}
			recv, _ = m.Rhs[0].(*ast.UnaryExpr)
			name = m.Lhs[0]
		case *ast.ExprStmt:
			recv, _ = m.X.(*ast.UnaryExpr)
		default:
			die("select with a send case is not supported")
		}
		if recv == nil || recv.Op != token.ARROW {
			die("unsupported select case")
		}
		var body []ast.Stmt
		for _, st := range cc.Body {
			body = append(body, rewriteStmt(st))
		}
		cases = append(cases, cs{rewriteExpr(recv.X), name, body})
	}
	idx, v0, v1 := tmp("i"), tmp("v"), tmp("v")
	sw := &ast.SwitchStmt{Tag: idx, Body: &ast.BlockStmt{}}
	for i, c := range cases {
		var body []ast.Stmt
		v := []*ast.Ident{v0, v1}[i]
		if c.name != nil {
			body = append(body, define([]ast.Expr{c.name}, v))
		}
		body = append(body, c.body...)
		sw.Body.List = append(sw.Body.List, &ast.CaseClause{List: []ast.Expr{&ast.BasicLit{Kind: token.INT, Value: strconv.Itoa(i)}}, Body: body})
	}
	blank := func(id *ast.Ident, used bool) ast.Stmt {
		return &ast.AssignStmt{Lhs: []ast.Expr{ast.NewIdent("_")}, Tok: token.ASSIGN, Rhs: []ast.Expr{id}}
	}
	return &ast.BlockStmt{List: []ast.Stmt{
		define([]ast.Expr{idx, v0, v1}, call(sel("Select2"), cases[0].ch, cases[1].ch)),
		blank(v0, true), blank(v1, true),
		sw,
	}}
}

func rewriteDecl(d ast.Decl) {
	switch x := d.(type) {
	case *ast.GenDecl:
		for _, sp := range x.Specs {
			switch s := sp.(type) {
			case *ast.ValueSpec:
				s.Type = rewriteExpr(s.Type)
				for i := range s.Values {
					s.Values[i] = rewriteExpr(s.Values[i])
				}
			case *ast.TypeSpec:
				s.Type = rewriteExpr(s.Type)
			}
		}
	case *ast.FuncDecl:
		if x.Recv != nil {
			rewriteFields(x.Recv)
		}
		rewriteFuncType(x.Type)
		rewriteBlock(x.Body)
	}
}

func main() {
	if len(os.Args) != 4 {
		die("usage: chanrewrite in.go out.go vsched-import-path")
	}
	fset := token.NewFileSet()
	src, err := os.ReadFile(os.Args[1])
	if err != nil {
		die("%v", err)
	}
	f, err := parser.ParseFile(fset, os.Args[1], src, parser.ParseComments)
	if err != nil {
		die("%v", err)
	}
	collectChanNames(f)
	for _, d := range f.Decls {
		rewriteDecl(d)
	}
	// comments would be misplaced after restructuring: drop free-floating ones, keep doc comments via the printer
	f.Comments = nil
	var buf bytes.Buffer
	if err := format.Node(&buf, fset, f); err != nil {
		die("printing: %v", err)
	}
	out := buf.String()
	// imports: add vsched, drop packages that are no longer referenced
	used := func(pkg string) bool { return strings.Contains(out, pkg+".") }
	var imports []string
	for _, im := range f.Imports {
		path, _ := strconv.Unquote(im.Path.Value)
		name := path[strings.LastIndex(path, "/")+1:]
		if im.Name != nil {
			name = im.Name.Name
		}
		keep := true
		switch path {
		case "sync", "sync/atomic", "runtime":
			body := out[strings.Index(out, ")"):] // after the import block
			keep = strings.Contains(body, name+".")
		}
		if keep {
			if im.Name != nil {
				imports = append(imports, im.Name.Name+" "+im.Path.Value)
			} else {
				imports = append(imports, im.Path.Value)
			}
		}
	}
	_ = used
	imports = append(imports, vs+" "+strconv.Quote(os.Args[3]))
	// replace the import declaration(s)
	start := strings.Index(out, "import")
	end := start
	if strings.HasPrefix(out[start:], "import (") {
		end = start + strings.Index(out[start:], ")") + 1
	} else {
		end = start + strings.Index(out[start:], "\n")
	}
	out = out[:start] + "import (\n\t" + strings.Join(imports, "\n\t") + "\n)" + out[end:]
	res, err := format.Source([]byte(out))
	if err != nil {
		die("formatting result: %v\n%s", err, out)
	}
	// nothing concurrency-related may survive
	chk := string(res)
	for _, bad := range []string{"chan ", "chan<-", "<-", "\tgo ", " go func", "select {", "sync.", "atomic.", "runtime.NumCPU"} {
		if i := strings.Index(chk, bad); i >= 0 {
			ln := 1 + strings.Count(chk[:i], "\n")
			die("token %q survives the rewrite at line %d of the output", bad, ln)
		}
	}
	if err := os.WriteFile(os.Args[2], res, 0o644); err != nil {
		die("%v", err)
	}
}
