// Package ev collects what a check covered, writes evidence/<id>.json, and
// turns failures into replayable VIOLATION artefacts (or KNOWN-FINDING lines).
package ev

import (
	"crypto/sha1"
	"encoding/json"
	"fmt"
	"os"
	"os/exec"
	"path/filepath"
	"sort"
	"strings"
	"sync"
	"time"
)

const Root = "/verif"

// Fail is one oracle failure inside one case.
type Fail struct {
	Scenario string         `json:"scenario"`
	Case     any            `json:"case"`  // what the replay needs (op path / product index)
	What     string         `json:"what"`  // human readable: which oracle, got vs want
	API      string         `json:"api"`   // entry point that misbehaved (for known-finding matching)
	Shape    string         `json:"shape"` // shape class computed by the check on the failing state
	Extra    map[string]any `json:"extra,omitempty"`
	Tier     string         `json:"-"` // tier whose bounds the case indices refer to (set by Report)
}

func (f *Fail) Error() string { return f.Scenario + ": " + f.What }

// Finding is one entry of known_findings.json.
type Finding struct {
	ID       string `json:"id"`
	Property string `json:"property"`
	Status   string `json:"status"` // "known" or "fixed"
	API      string `json:"api"`
	Shape    string `json:"shape"`
	What     string `json:"what"`
	Witness  any    `json:"witness,omitempty"`
	Commit   string `json:"commit,omitempty"`
}

type ScenarioStat struct {
	Name        string         `json:"name"`
	States      int64          `json:"states"`
	Transitions int64          `json:"transitions"`
	MaxDepth    int            `json:"max_depth,omitempty"`
	Exhaustive  bool           `json:"exhaustive"`
	Bound       string         `json:"bound,omitempty"`
	Outcomes    int            `json:"distinct_outcomes,omitempty"`
	Extra       map[string]any `json:"extra,omitempty"`
	WallS       float64        `json:"wall_s"`
}

type Run struct {
	Prop, Tier, Level string
	Seed              int64
	ReplayMode        bool
	Phase             string // "quick" while a thorough run covers the quick bounds first; "" otherwise
	Quiet             bool   // helper runs (corpus construction): no printing

	mu          sync.Mutex
	start       time.Time
	scen        []ScenarioStat
	samples     []any
	fails       []*Fail
	known       map[string]int
	findings    []Finding
	assumptions []string
	extra       map[string]any
	harnessErr  []string
	classes     map[string]int
}

func NewRun(prop, tier, level string, seed int64) *Run {
	r := &Run{Prop: prop, Tier: tier, Level: level, Seed: seed, start: time.Now(), known: map[string]int{}, extra: map[string]any{}}
	r.assumptions = []string{
		"the reference models (mc/internal/model) and the read-only hook view are correct",
		"values outside the stated alphabets behave like the representative chosen per branch condition in the code (DESIGN.md section 3)",
		"checks were built with -tags verif from /repo's working tree at run time",
	}
	b, err := os.ReadFile(filepath.Join(Root, "known_findings.json"))
	if err == nil {
		if e := json.Unmarshal(b, &r.findings); e != nil {
			r.HarnessError("known_findings.json: " + e.Error())
		}
	}
	return r
}

func (r *Run) Assume(s string)          { r.mu.Lock(); r.assumptions = append(r.assumptions, s); r.mu.Unlock() }
func (r *Run) SetExtra(k string, v any) { r.mu.Lock(); r.extra[k] = v; r.mu.Unlock() }
func (r *Run) AddScenario(s ScenarioStat) {
	if r.Phase != "" && r.Phase != r.Tier {
		s.Name = "[" + r.Phase + " bounds] " + s.Name
	}
	r.mu.Lock()
	r.scen = append(r.scen, s)
	r.mu.Unlock()
	if r.Quiet {
		return
	}
	fmt.Printf("[%s] scenario %-28s states=%d transitions=%d depth=%d exhaustive=%v outcomes=%d %s (%.1fs)\n", r.Prop, s.Name, s.States, s.Transitions, s.MaxDepth, s.Exhaustive, s.Outcomes, s.Bound, s.WallS)
}
func (r *Run) Sample(v any) {
	r.mu.Lock()
	if len(r.samples) < 12 {
		r.samples = append(r.samples, v)
	}
	r.mu.Unlock()
}
func (r *Run) HarnessError(s string) {
	r.mu.Lock()
	r.harnessErr = append(r.harnessErr, s)
	r.mu.Unlock()
	fmt.Println("HARNESS-ERROR " + s)
}

// matchKnown returns the id of a status=="known" finding that matches f exactly
// (property, api and shape). Fixed entries never match.
func (r *Run) matchKnown(f *Fail) string {
	if f.API == "" || f.Shape == "" {
		return ""
	}
	for _, k := range r.findings {
		if k.Status == "known" && k.Property == r.Prop && k.API == f.API && k.Shape == f.Shape {
			return k.ID
		}
	}
	return ""
}

// Report records a failure. It returns true when the failure is a listed known
// finding (the caller should then prune the state and continue).
func (r *Run) Report(f *Fail) (known bool) {
	if f.API == "harness" {
		r.HarnessError(f.Scenario + ": " + f.What)
		return false
	}
	r.mu.Lock()
	defer r.mu.Unlock()
	f.Tier = r.phaseTier()
	if id := r.matchKnown(f); id != "" {
		r.known[id]++
		return true
	}
	// keep at most 3 witnesses per (scenario, api, shape) class
	key := f.Scenario + "|" + f.API + "|" + f.Shape
	if r.classes == nil {
		r.classes = map[string]int{}
	}
	r.classes[key]++
	if r.classes[key] <= 3 && len(r.fails) < 300 {
		r.fails = append(r.fails, f)
	}
	return false
}

// phaseTier is the tier whose bounds are being explored right now: a thorough run first
// covers the quick bounds completely (Phase == "quick"), then goes on to its own.
func (r *Run) phaseTier() string {
	if r.Phase != "" {
		return r.Phase
	}
	return r.Tier
}

func (r *Run) NumFails() int { r.mu.Lock(); defer r.mu.Unlock(); return len(r.fails) }

// Finish writes evidence, prints KNOWN-FINDING / VIOLATION lines and returns the exit code.
func (r *Run) Finish() int {
	wall := time.Since(r.start).Seconds()
	var states, trans int64
	exh := true
	for _, s := range r.scen {
		states += s.States
		trans += s.Transitions
		if !s.Exhaustive {
			exh = false
		}
	}
	if r.ReplayMode {
		if len(r.fails) > 0 {
			for _, f := range r.fails {
				fmt.Printf("REPLAY-FAIL %s: %s\n", f.Scenario, f.What)
			}
			return 1
		}
		fmt.Println("REPLAY-PASS")
		return 0
	}
	// confirm each violation by replay in fresh processes; group by (api,shape,scenario) to keep output small
	type vio struct {
		f    *Fail
		path string
	}
	var vios []vio
	seen := map[string]bool{}
	sort.SliceStable(r.fails, func(i, j int) bool { return len(fmt.Sprint(r.fails[i].Case)) < len(fmt.Sprint(r.fails[j].Case)) })
	for _, f := range r.fails {
		key := f.Scenario + "|" + f.API + "|" + f.Shape
		if seen[key] {
			continue
		}
		seen[key] = true
		p := r.writeReplay(f)
		if r.confirm(p, f.Tier) {
			vios = append(vios, vio{f, p})
		} else {
			r.HarnessError(fmt.Sprintf("failure did not reproduce 5/5 on replay (not reported as violation): %s: %s [%s]", f.Scenario, f.What, p))
		}
	}
	cov := map[string]any{
		"states":                        states,
		"transitions":                   trans,
		"traces_validated_against_impl": trans,
		"evaluations":                   trans,
		"distinct_nontrivial":           states,
		"rule":                          "every transition/case is one execution of /repo's working tree (built with -tags verif) compared with the reference model; 'states' counts distinct canonical states (content + hidden representation) or distinct enumerated cases per scenario",
		"exhaustive":                    exh,
		"scenarios":                     r.scen,
		"samples":                       r.samples,
		"known_findings_hit":            r.known,
	}
	for k, v := range r.extra {
		cov[k] = v
	}
	if len(r.samples) == 0 {
		cov["samples"] = []any{"(no case executed)"}
	}
	evd := map[string]any{
		"property_id": r.Prop, "tier": r.Tier, "seed": r.Seed, "level": r.Level,
		"coverage": cov, "assumptions": r.assumptions, "wall_s": wall, "violations": len(vios),
	}
	if len(r.harnessErr) > 0 {
		evd["harness_errors"] = r.harnessErr
	}
	b, _ := json.MarshalIndent(evd, "", " ")
	evDir := filepath.Join(Root, "evidence")
	if d := os.Getenv("VERIF_EVIDENCE_DIR"); d != "" {
		evDir = d // background sweeps write elsewhere; registered commands never set this
	} else if os.Getenv("VERIF_ONLY_SCENARIO") != "" {
		evDir = filepath.Join(Root, "out", "partial") // a development run of one scenario is not the property's evidence
	}
	os.MkdirAll(evDir, 0o755)
	if err := os.WriteFile(filepath.Join(evDir, r.Prop+".json"), b, 0o644); err != nil {
		fmt.Println("HARNESS-ERROR cannot write evidence:", err)
		return 2
	}
	ids := make([]string, 0, len(r.known))
	for id := range r.known {
		ids = append(ids, id)
	}
	sort.Strings(ids)
	for _, id := range ids {
		for _, k := range r.findings {
			if k.ID == id {
				fmt.Printf("KNOWN-FINDING: property=%s %s [%s; %s] (%d cases)\n", r.Prop, k.What, k.API, k.Shape, r.known[id])
			}
		}
	}
	fmt.Printf("[%s] tier=%s states=%d transitions=%d exhaustive=%v violations=%d wall=%.1fs\n", r.Prop, r.Tier, states, trans, exh, len(vios), wall)
	for _, v := range vios {
		fmt.Printf("  %s: %s\n", v.f.Scenario, v.f.What)
		fmt.Printf("VIOLATION property=%s replay=%s\n", r.Prop, v.path)
	}
	if len(vios) > 0 {
		return 1
	}
	if len(r.harnessErr) > 0 {
		return 2
	}
	return 0
}

func (r *Run) writeReplay(f *Fail) string {
	tier := f.Tier
	if tier == "" {
		tier = r.Tier
	}
	doc := map[string]any{"property": r.Prop, "tier": tier, "scenario": f.Scenario, "case": f.Case, "what": f.What, "api": f.API, "shape": f.Shape, "extra": f.Extra}
	b, _ := json.MarshalIndent(doc, "", " ")
	h := sha1.Sum(b)
	dir := filepath.Join(Root, "out", "replays")
	os.MkdirAll(dir, 0o755)
	p := filepath.Join(dir, fmt.Sprintf("%s-%x.json", r.Prop, h[:6]))
	os.WriteFile(p, b, 0o644)
	return p
}

// confirm re-executes the replay file 5 times in fresh processes; all must fail.
func (r *Run) confirm(path, tier string) bool {
	if tier == "" {
		tier = r.Tier
	}
	if os.Getenv("VERIF_NO_CONFIRM") != "" {
		return true
	}
	for i := 0; i < 5; i++ {
		cmd := exec.Command(os.Args[0], "-prop", r.Prop, "-tier", tier, "-replay", path)
		cmd.Env = os.Environ()
		out, err := cmd.CombinedOutput()
		if err == nil || !strings.Contains(string(out), "REPLAY-FAIL") {
			return false
		}
	}
	return true
}

// ReplayDoc is what -replay loads.
type ReplayDoc struct {
	Property string          `json:"property"`
	Tier     string          `json:"tier"`
	Scenario string          `json:"scenario"`
	Case     json.RawMessage `json:"case"`
	What     string          `json:"what"`
}

func LoadReplay(path string) (*ReplayDoc, error) {
	b, err := os.ReadFile(path)
	if err != nil {
		return nil, err
	}
	var d ReplayDoc
	return &d, json.Unmarshal(b, &d)
}
