// Package spec is an independent reading of the RoaringFormatSpec portable
// format and of the CRoaring frozen layout. It shares no code with the library.
package spec

import (
	"encoding/binary"
	"fmt"
	"math/bits"

	"verifmc/internal/model"
)

const (
	CookieNoRun  = 12346
	CookieRun    = 12347
	FrozenCookie = 13766
)

const (
	KBitmap = 0
	KArray  = 1
	KRun    = 2
)

// Chunk is one container in an encoding.
type Chunk struct {
	Key    uint16
	Kind   int
	Card   int         // declared cardinality (portable: from the descriptive header)
	Values []uint16    // KArray: the values as stored
	Words  []uint64    // KBitmap: 1024 words
	Runs   [][2]uint16 // KRun: (start, length-1) as stored
}

// Set returns the elements a chunk encodes (as 65536-bit vector).
func (c *Chunk) Set() *model.Chunk {
	var out model.Chunk
	switch c.Kind {
	case KBitmap:
		copy(out[:], c.Words)
	case KArray:
		for _, v := range c.Values {
			out[v>>6] |= 1 << (v & 63)
		}
	case KRun:
		for _, r := range c.Runs {
			for x := int(r[0]); x <= int(r[0])+int(r[1]) && x <= 65535; x++ {
				out[x>>6] |= 1 << (uint(x) & 63)
			}
		}
	}
	return &out
}

func ToSet(cs []Chunk) *model.Set32 {
	s := model.New32()
	for i := range cs {
		c := cs[i].Set()
		nz := false
		for _, w := range c {
			if w != 0 {
				nz = true
			}
		}
		if !nz {
			continue
		}
		if old := s.M[cs[i].Key]; old != nil {
			for j := range c {
				c[j] |= old[j]
			}
		}
		s.M[cs[i].Key] = c
	}
	return s
}

func popcount(ws []uint64) int {
	n := 0
	for _, w := range ws {
		n += bits.OnesCount64(w)
	}
	return n
}

// RealCard is the number of elements the chunk's payload encodes.
func (c *Chunk) RealCard() int {
	switch c.Kind {
	case KBitmap:
		return popcount(c.Words)
	case KArray:
		return len(c.Values)
	}
	n := 0
	for _, r := range c.Runs {
		n += int(r[1]) + 1
	}
	return n
}

// EncodePortable writes chunks per the spec. forceRunCookie selects cookie 12347
// even when no chunk is run-encoded (legal). declared cardinalities are taken
// from Card when non-zero, else from the payload.
func EncodePortable(cs []Chunk, forceRunCookie bool) []byte {
	n := len(cs)
	hasRun := forceRunCookie
	for _, c := range cs {
		if c.Kind == KRun {
			hasRun = true
		}
	}
	var out []byte
	u16 := func(v uint16) { out = binary.LittleEndian.AppendUint16(out, v) }
	u32 := func(v uint32) { out = binary.LittleEndian.AppendUint32(out, v) }
	if hasRun {
		u32(uint32(CookieRun) | uint32(n-1)<<16)
		bm := make([]byte, (n+7)/8)
		for i, c := range cs {
			if c.Kind == KRun {
				bm[i/8] |= 1 << (i % 8)
			}
		}
		out = append(out, bm...)
	} else {
		u32(CookieNoRun)
		u32(uint32(n))
	}
	for _, c := range cs {
		u16(c.Key)
		card := c.Card
		if card == 0 {
			card = c.RealCard()
		}
		u16(uint16(card - 1))
	}
	if !hasRun || n >= 4 {
		off := len(out) + 4*n
		for _, c := range cs {
			u32(uint32(off))
			off += payloadSize(&c)
		}
	}
	for _, c := range cs {
		switch c.Kind {
		case KArray:
			for _, v := range c.Values {
				u16(v)
			}
		case KBitmap:
			for _, w := range c.Words {
				out = binary.LittleEndian.AppendUint64(out, w)
			}
		case KRun:
			u16(uint16(len(c.Runs)))
			for _, r := range c.Runs {
				u16(r[0])
				u16(r[1])
			}
		}
	}
	return out
}

func payloadSize(c *Chunk) int {
	switch c.Kind {
	case KArray:
		return 2 * len(c.Values)
	case KBitmap:
		return 8192
	}
	return 2 + 4*len(c.Runs)
}

// DecodePortable parses a portable stream and checks every layout rule of the
// spec. It returns the chunks and the number of bytes the stream occupies.
// strictWriter additionally requires what a canonical writer produces
// (cookie 12347 only when a run chunk exists).
func DecodePortable(b []byte, strictWriter bool) ([]Chunk, int, error) {
	pos := 0
	need := func(k int) error {
		if pos+k > len(b) {
			return fmt.Errorf("truncated at offset %d (need %d more bytes)", pos, k)
		}
		return nil
	}
	if err := need(4); err != nil {
		return nil, 0, err
	}
	cookie := binary.LittleEndian.Uint32(b)
	pos = 4
	var n int
	var runBits []byte
	hasRunCookie := false
	switch {
	case cookie&0xFFFF == CookieRun:
		hasRunCookie = true
		n = int(cookie>>16) + 1
		if err := need((n + 7) / 8); err != nil {
			return nil, 0, err
		}
		runBits = b[pos : pos+(n+7)/8]
		pos += (n + 7) / 8
	case cookie == CookieNoRun:
		if err := need(4); err != nil {
			return nil, 0, err
		}
		n = int(binary.LittleEndian.Uint32(b[pos:]))
		pos += 4
		if n > 65536 {
			return nil, 0, fmt.Errorf("chunk count %d > 65536", n)
		}
	default:
		return nil, 0, fmt.Errorf("bad cookie %d", cookie)
	}
	if err := need(4 * n); err != nil {
		return nil, 0, err
	}
	cs := make([]Chunk, n)
	anyRun := false
	for i := 0; i < n; i++ {
		cs[i].Key = binary.LittleEndian.Uint16(b[pos:])
		cs[i].Card = int(binary.LittleEndian.Uint16(b[pos+2:])) + 1
		pos += 4
		if i > 0 && cs[i].Key <= cs[i-1].Key {
			return nil, 0, fmt.Errorf("keys not strictly ascending at chunk %d (%d after %d)", i, cs[i].Key, cs[i-1].Key)
		}
		if runBits != nil && runBits[i/8]&(1<<(i%8)) != 0 {
			cs[i].Kind = KRun
			anyRun = true
		} else if cs[i].Card > 4096 {
			cs[i].Kind = KBitmap
		} else {
			cs[i].Kind = KArray
		}
	}
	if runBits != nil {
		// unused high bits of the run bitset must be zero
		for i := n; i < 8*len(runBits); i++ {
			if runBits[i/8]&(1<<(i%8)) != 0 {
				return nil, 0, fmt.Errorf("run bitset has bit %d set beyond the %d chunks", i, n)
			}
		}
	}
	if strictWriter && hasRunCookie && !anyRun {
		return nil, 0, fmt.Errorf("run cookie used although no chunk is run-encoded")
	}
	var offsets []uint32
	if !hasRunCookie || n >= 4 {
		if err := need(4 * n); err != nil {
			return nil, 0, err
		}
		for i := 0; i < n; i++ {
			offsets = append(offsets, binary.LittleEndian.Uint32(b[pos:]))
			pos += 4
		}
	}
	for i := 0; i < n; i++ {
		if offsets != nil && int(offsets[i]) != pos {
			return nil, 0, fmt.Errorf("offset of chunk %d is %d, payload starts at %d", i, offsets[i], pos)
		}
		c := &cs[i]
		switch c.Kind {
		case KArray:
			if err := need(2 * c.Card); err != nil {
				return nil, 0, err
			}
			for j := 0; j < c.Card; j++ {
				v := binary.LittleEndian.Uint16(b[pos:])
				pos += 2
				if j > 0 && v <= c.Values[j-1] {
					return nil, 0, fmt.Errorf("array chunk %d not strictly increasing at %d", i, j)
				}
				c.Values = append(c.Values, v)
			}
		case KBitmap:
			if err := need(8192); err != nil {
				return nil, 0, err
			}
			c.Words = make([]uint64, 1024)
			for j := range c.Words {
				c.Words[j] = binary.LittleEndian.Uint64(b[pos:])
				pos += 8
			}
			if pc := popcount(c.Words); pc != c.Card {
				return nil, 0, fmt.Errorf("bitmap chunk %d: declared cardinality %d, popcount %d", i, c.Card, pc)
			}
		case KRun:
			if err := need(2); err != nil {
				return nil, 0, err
			}
			nr := int(binary.LittleEndian.Uint16(b[pos:]))
			pos += 2
			if err := need(4 * nr); err != nil {
				return nil, 0, err
			}
			prevEnd := -1
			sum := 0
			for j := 0; j < nr; j++ {
				st := binary.LittleEndian.Uint16(b[pos:])
				ln := binary.LittleEndian.Uint16(b[pos+2:])
				pos += 4
				if int(st)+int(ln) > 65535 {
					return nil, 0, fmt.Errorf("run chunk %d: run %d leaves the chunk", i, j)
				}
				if int(st) <= prevEnd {
					return nil, 0, fmt.Errorf("run chunk %d: runs unsorted or overlapping at %d", i, j)
				}
				prevEnd = int(st) + int(ln)
				sum += int(ln) + 1
				c.Runs = append(c.Runs, [2]uint16{st, ln})
			}
			if sum != c.Card {
				return nil, 0, fmt.Errorf("run chunk %d: declared cardinality %d, runs hold %d", i, c.Card, sum)
			}
		}
	}
	return cs, pos, nil
}

// EncodeFrozen writes the CRoaring frozen layout.
func EncodeFrozen(cs []Chunk) []byte {
	var out []byte
	for _, c := range cs {
		if c.Kind == KBitmap {
			for _, w := range c.Words {
				out = binary.LittleEndian.AppendUint64(out, w)
			}
		}
	}
	for _, c := range cs {
		if c.Kind == KRun {
			for _, r := range c.Runs {
				out = binary.LittleEndian.AppendUint16(out, r[0])
				out = binary.LittleEndian.AppendUint16(out, r[1])
			}
		}
	}
	for _, c := range cs {
		if c.Kind == KArray {
			for _, v := range c.Values {
				out = binary.LittleEndian.AppendUint16(out, v)
			}
		}
	}
	for _, c := range cs {
		out = binary.LittleEndian.AppendUint16(out, c.Key)
	}
	for _, c := range cs {
		switch c.Kind {
		case KRun:
			out = binary.LittleEndian.AppendUint16(out, uint16(len(c.Runs)))
		default:
			card := c.Card
			if card == 0 {
				card = c.RealCard()
			}
			out = binary.LittleEndian.AppendUint16(out, uint16(card-1))
		}
	}
	for _, c := range cs {
		out = append(out, byte([]int{1, 2, 3}[c.Kind]))
	}
	out = binary.LittleEndian.AppendUint32(out, uint32(FrozenCookie)|uint32(len(cs))<<15)
	return out
}

// DecodeFrozen parses the frozen layout from the back, checking every rule.
func DecodeFrozen(b []byte) ([]Chunk, error) {
	if len(b) < 4 {
		return nil, fmt.Errorf("shorter than the header")
	}
	h := binary.LittleEndian.Uint32(b[len(b)-4:])
	if h&0x7FFF != FrozenCookie {
		return nil, fmt.Errorf("bad frozen cookie %d", h&0x7FFF)
	}
	n := int(h >> 15)
	rest := b[:len(b)-4]
	if len(rest) < 5*n {
		return nil, fmt.Errorf("too short for %d chunks", n)
	}
	types := rest[len(rest)-n:]
	rest = rest[:len(rest)-n]
	counts := rest[len(rest)-2*n:]
	rest = rest[:len(rest)-2*n]
	keys := rest[len(rest)-2*n:]
	rest = rest[:len(rest)-2*n]
	cs := make([]Chunk, n)
	nb, nrun, narr := 0, 0, 0
	for i := 0; i < n; i++ {
		cs[i].Key = binary.LittleEndian.Uint16(keys[2*i:])
		cnt := int(binary.LittleEndian.Uint16(counts[2*i:]))
		if i > 0 && cs[i].Key <= cs[i-1].Key {
			return nil, fmt.Errorf("keys not strictly ascending at chunk %d", i)
		}
		switch types[i] {
		case 1:
			cs[i].Kind, cs[i].Card = KBitmap, cnt+1
			nb++
		case 2:
			cs[i].Kind, cs[i].Card = KArray, cnt+1
			narr += cnt + 1
		case 3:
			cs[i].Kind, cs[i].Card = KRun, cnt // number of runs for now
			nrun += cnt
		default:
			return nil, fmt.Errorf("bad type code %d at chunk %d", types[i], i)
		}
	}
	if len(rest) != 8192*nb+4*nrun+2*narr {
		return nil, fmt.Errorf("arena sizes do not add up: have %d bytes, need %d", len(rest), 8192*nb+4*nrun+2*narr)
	}
	bp, rp, ap := 0, 8192*nb, 8192*nb+4*nrun
	for i := range cs {
		c := &cs[i]
		switch c.Kind {
		case KBitmap:
			c.Words = make([]uint64, 1024)
			for j := range c.Words {
				c.Words[j] = binary.LittleEndian.Uint64(rest[bp:])
				bp += 8
			}
			if pc := popcount(c.Words); pc != c.Card {
				return nil, fmt.Errorf("bitmap chunk %d: count field %d, popcount %d", i, c.Card, pc)
			}
		case KRun:
			nr := c.Card
			sum, prevEnd := 0, -1
			for j := 0; j < nr; j++ {
				st := binary.LittleEndian.Uint16(rest[rp:])
				ln := binary.LittleEndian.Uint16(rest[rp+2:])
				rp += 4
				if int(st)+int(ln) > 65535 || int(st) <= prevEnd {
					return nil, fmt.Errorf("run chunk %d: bad run %d", i, j)
				}
				prevEnd = int(st) + int(ln)
				sum += int(ln) + 1
				c.Runs = append(c.Runs, [2]uint16{st, ln})
			}
			c.Card = sum
		case KArray:
			for j := 0; j < c.Card; j++ {
				v := binary.LittleEndian.Uint16(rest[ap:])
				ap += 2
				if j > 0 && v <= c.Values[j-1] {
					return nil, fmt.Errorf("array chunk %d not strictly increasing", i)
				}
				c.Values = append(c.Values, v)
			}
		}
	}
	return cs, nil
}

// FromModel builds chunk encodings of a set. kindOf chooses the encoding per chunk
// (given key and cardinality); granularity splits runs: 0 maximal runs, k>0 pieces of at most k values.
func FromModel(m *model.Set32, kindOf func(key uint16, card int) int, granularity int) []Chunk {
	var cs []Chunk
	for _, k := range m.Keys() {
		ch := m.M[k]
		var vals []uint16
		for w, x := range ch {
			for x != 0 {
				t := bits.TrailingZeros64(x)
				vals = append(vals, uint16(w<<6+t))
				x &= x - 1
			}
		}
		c := Chunk{Key: k, Card: len(vals)}
		kind := kindOf(k, len(vals))
		if kind != KRun {
			if len(vals) > 4096 {
				kind = KBitmap
			} else {
				kind = KArray
			}
		}
		c.Kind = kind
		switch kind {
		case KArray:
			c.Values = vals
		case KBitmap:
			c.Words = append([]uint64(nil), ch[:]...)
		case KRun:
			for i := 0; i < len(vals); {
				j := i
				for j+1 < len(vals) && vals[j+1] == vals[j]+1 && (granularity == 0 || j+1-i < granularity) {
					j++
				}
				c.Runs = append(c.Runs, [2]uint16{vals[i], uint16(j - i)})
				i = j + 1
			}
		}
		cs = append(cs, c)
	}
	return cs
}
