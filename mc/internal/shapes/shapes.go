// Package shapes builds bitmaps, through the public API only, from the content
// atoms of DESIGN.md section 3 (one atom per threshold / shortcut in the code),
// in every storage form and sharing mode the API can produce.
package shapes

import (
	"fmt"
	"runtime"
	"strings"
	"sync"

	"github.com/RoaringBitmap/roaring/v2"
	"verifmc/internal/model"
)

// Atom is a set of low-16-bit values: either a contiguous range or a stripe of short runs.
type Atom struct {
	Name   string
	Start  int // first value
	Count  int // number of runs
	Width  int // values per run
	Stride int // distance between run starts
}

const (
	Lo = iota
	R62
	W
	S4095
	S1000a
	S1000b
	Big
	R2047
	R1
	Hi
	H63
	Full
	Mid // a single value in the middle (32768)
	LowHalf
	UpHalf
	Hole // not a content atom: after building, remove 32768 and 0 (full chunk minus holes)
	NAtoms
)

var Atoms = [NAtoms]Atom{
	Lo:      {"lo", 0, 1, 1, 1},
	R62:     {"r62", 1, 1, 62, 1},
	W:       {"w", 63, 1, 2, 1},
	S4095:   {"s4095", 8192, 4095, 1, 2},
	S1000a:  {"s1000a", 30000, 513, 1, 2},
	S1000b:  {"s1000b", 30001, 512, 1, 2},
	Big:     {"big", 20000, 1, 10000, 1},
	R2047:   {"r2047", 40000, 2047, 3, 4},
	R1:      {"r1", 40000 + 4*2047, 1, 3, 4},
	Hi:      {"hi", 65535, 1, 1, 1},
	H63:     {"h63", 65472, 1, 63, 1},
	Full:    {"full", 0, 1, 65536, 1},
	Mid:     {"mid", 32768, 1, 1, 1},
	LowHalf: {"lowhalf", 0, 1, 32768, 1},
	UpHalf:  {"uphalf", 32768, 1, 32768, 1},
	Hole:    {"hole", 0, 0, 0, 1},
}

func (a Atom) IsRange() bool { return a.Count == 1 }

// Values lists the atom's values in increasing order.
func (a Atom) Values() []uint32 {
	out := make([]uint32, 0, a.Count*a.Width)
	for i := 0; i < a.Count; i++ {
		for j := 0; j < a.Width; j++ {
			out = append(out, uint32(a.Start+i*a.Stride+j))
		}
	}
	return out
}

func MaskName(m uint32) string {
	if m == 0 {
		return "-"
	}
	var p []string
	for i := 0; i < NAtoms; i++ {
		if m&(1<<i) != 0 {
			p = append(p, Atoms[i].Name)
		}
	}
	return strings.Join(p, "+")
}

// Build modes.
const (
	Points = iota // every value through AddMany: array / bitmap kinds only
	Ranges        // ranges through AddRange, stripes through AddMany
	Opt           // Ranges, then RunOptimize
	NModes
)

var ModeName = [...]string{"points", "ranges", "opt"}

// Sharing modes.
const (
	Plain  = iota
	COW    // SetCopyOnWrite(true) and a live clone: every chunk flagged needCopyOnWrite
	ZeroC  // portable bytes + FromUnsafeBytes: chunks alias the byte slice, all flagged
	Frozen // frozen bytes + FrozenView
	NShare
)

var ShareName = [...]string{"plain", "cow", "zerocopy", "frozen"}

type ChunkSpec struct {
	Key  uint16
	Mask uint32
}

type Spec struct {
	Chunks []ChunkSpec
	Mode   int
	Share  int
}

func (s Spec) String() string {
	var p []string
	for _, c := range s.Chunks {
		p = append(p, fmt.Sprintf("%d:%s", c.Key, MaskName(c.Mask)))
	}
	return fmt.Sprintf("{%s %s %s}", strings.Join(p, " "), ModeName[s.Mode], ShareName[s.Share])
}

// Built keeps the bitmap together with whatever must stay alive / intact for it.
type Built struct {
	B     *roaring.Bitmap
	M     *model.Set32
	Keep  *roaring.Bitmap // the COW sibling, if any
	Bytes []byte          // the buffer a zero-copy bitmap aliases
}

// AddChunk adds the atoms of mask at chunk key to b and to the model.
func AddChunk(b *roaring.Bitmap, m *model.Set32, key uint16, mask uint32, mode int) {
	base := uint32(key) << 16
	defer func() {
		if mask&(1<<Hole) != 0 {
			for _, x := range []uint32{base, base | 32768} {
				b.Remove(x)
				if m != nil {
					m.Remove(x)
				}
			}
		}
	}()
	for i := 0; i < NAtoms; i++ {
		if mask&(1<<i) == 0 || i == Hole {
			continue
		}
		a := Atoms[i]
		if a.IsRange() && mode != Points {
			lo := uint64(base) + uint64(a.Start)
			b.AddRange(lo, lo+uint64(a.Width))
			if m != nil {
				m.AddRange(lo, lo+uint64(a.Width))
			}
			continue
		}
		vs := a.Values()
		for j := range vs {
			vs[j] |= base
		}
		b.AddMany(vs)
		if m != nil {
			if a.IsRange() {
				m.AddRange(uint64(vs[0]), uint64(vs[len(vs)-1])+1)
			} else {
				for _, v := range vs {
					m.Add(v)
				}
			}
		}
	}
}

// BuildError records that the library could not read back its own serialization while a
// zero-copy or frozen corpus entry was being built. The entry then falls back to the plain
// bitmap, so that checks of properties that say nothing about serialization keep running
// (and stay silent); the serialization checks (C05, C06, C13) report every recorded error.
type BuildError struct {
	Spec string
	Step string
	Err  string
}

var (
	buildErrMu sync.Mutex
	buildErrs  []BuildError
	buildSeen  = map[string]bool{}
)

func noteBuildError(s Spec, step string, err error) {
	buildErrMu.Lock()
	defer buildErrMu.Unlock()
	k := s.String() + "|" + step
	if buildSeen[k] {
		return
	}
	buildSeen[k] = true
	buildErrs = append(buildErrs, BuildError{Spec: s.String(), Step: step, Err: err.Error()})
}

// BuildErrors returns the recorded errors whose step mentions one of the given words.
func BuildErrors(words ...string) []BuildError {
	buildErrMu.Lock()
	defer buildErrMu.Unlock()
	var out []BuildError
	for _, e := range buildErrs {
		for _, w := range words {
			if strings.Contains(e.Step, w) {
				out = append(out, e)
				break
			}
		}
	}
	return out
}

// Build constructs the bitmap of the spec.
func (s Spec) Build() *Built {
	b := roaring.New()
	m := model.New32()
	for _, c := range s.Chunks {
		AddChunk(b, m, c.Key, c.Mask, s.Mode)
	}
	if s.Mode == Opt {
		b.RunOptimize()
	}
	out := &Built{B: b, M: m}
	switch s.Share {
	case COW:
		b.SetCopyOnWrite(true)
		out.Keep = b.Clone()
	case ZeroC:
		buf, err := b.ToBytes()
		if err != nil {
			noteBuildError(s, "ToBytes", err)
			break
		}
		buf = Aligned(buf)
		nb := roaring.New()
		if _, err := nb.FromUnsafeBytes(buf); err != nil {
			noteBuildError(s, "FromUnsafeBytes(ToBytes())", err)
			break
		}
		out.B, out.Bytes = nb, buf
	case Frozen:
		buf, err := b.Freeze()
		if err != nil {
			noteBuildError(s, "Freeze", err)
			break
		}
		buf = Aligned(buf)
		nb := roaring.New()
		if err := nb.FrozenView(buf); err != nil {
			noteBuildError(s, "FrozenView(Freeze())", err)
			break
		}
		out.B, out.Bytes = nb, buf
		// A frozen view keeps its container headers in memory the collector does not
		// scan, so the view does not keep buf alive; keeping the buffer valid is the
		// caller's documented duty. Tie the buffer's lifetime to the view here.
		runtime.SetFinalizer(nb, func(*roaring.Bitmap) { runtime.KeepAlive(buf) })
	}
	return out
}

// Aligned copies b into a fresh 8-byte aligned slice with exact length.
func Aligned(b []byte) []byte {
	w := make([]uint64, (len(b)+7)/8+1)
	p := unsafeBytes(w)
	copy(p, b)
	return p[:len(b):len(b)]
}
