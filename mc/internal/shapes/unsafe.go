package shapes

import "unsafe"

func unsafeBytes(w []uint64) []byte {
	if len(w) == 0 {
		return nil
	}
	return unsafe.Slice((*byte)(unsafe.Pointer(&w[0])), len(w)*8)
}
