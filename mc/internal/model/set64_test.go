package model

import "testing"

// Self test: the interval model against a plain map on a small universe, all op sequences <= 3.
func TestSet64AgainstMap(t *testing.T) {
	type op struct {
		k    int
		a, b uint64
	}
	var ops []op
	for a := uint64(0); a < 7; a++ {
		ops = append(ops, op{0, a, 0}, op{1, a, 0})
		for b := a; b <= 7; b++ {
			ops = append(ops, op{2, a, b}, op{3, a, b}, op{4, a, b})
		}
	}
	apply := func(s *Set64, m map[uint64]bool, o op) {
		switch o.k {
		case 0:
			if s.Add(o.a) != !m[o.a] {
				t.Fatal("Add return")
			}
			m[o.a] = true
		case 1:
			if s.Remove(o.a) != m[o.a] {
				t.Fatal("Remove return")
			}
			delete(m, o.a)
		case 2:
			s.AddRange(o.a, o.b)
			for x := o.a; x < o.b; x++ {
				m[x] = true
			}
		case 3:
			s.RemoveRange(o.a, o.b)
			for x := o.a; x < o.b; x++ {
				delete(m, x)
			}
		case 4:
			s.FlipRange(o.a, o.b)
			for x := o.a; x < o.b; x++ {
				if m[x] {
					delete(m, x)
				} else {
					m[x] = true
				}
			}
		}
	}
	n := 0
	for _, o1 := range ops {
		for _, o2 := range ops {
			for _, o3 := range ops[:40] {
				s, m := New64(), map[uint64]bool{}
				apply(s, m, o1)
				apply(s, m, o2)
				apply(s, m, o3)
				for x := uint64(0); x < 9; x++ {
					if s.Contains(x) != m[x] {
						t.Fatalf("mismatch at %d after %v %v %v: %v", x, o1, o2, o3, s.Iv)
					}
				}
				if s.Card() != uint64(len(m)) {
					t.Fatal("card")
				}
				for i := 1; i < len(s.Iv); i++ {
					if s.Iv[i-1][1]+1 >= s.Iv[i][0] {
						t.Fatalf("not normalised: %v", s.Iv)
					}
				}
				n++
			}
		}
	}
	t.Log("sequences:", n)
}
