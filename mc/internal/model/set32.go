// Package model holds the boring reference models: a set of uint32 kept as one
// 65536-bit vector per 16-bit chunk key, a set of uint64, and helpers.
// Nothing here shares code with the library under test.
package model

import (
	"hash/fnv"
	"math/bits"
	"sort"
)

type Chunk = [1024]uint64

// Set32 is a mathematical set of uint32. No empty chunk is ever retained.
type Set32 struct {
	M map[uint16]*Chunk
}

func New32() *Set32 { return &Set32{M: map[uint16]*Chunk{}} }

func Of32(vs ...uint32) *Set32 {
	s := New32()
	for _, v := range vs {
		s.Add(v)
	}
	return s
}

func (s *Set32) Clone() *Set32 {
	o := New32()
	for k, c := range s.M {
		cc := *c
		o.M[k] = &cc
	}
	return o
}

func chunkEmpty(c *Chunk) bool {
	for _, w := range c {
		if w != 0 {
			return false
		}
	}
	return true
}

func chunkCard(c *Chunk) int {
	n := 0
	for _, w := range c {
		n += bits.OnesCount64(w)
	}
	return n
}

func (s *Set32) Contains(x uint32) bool {
	c := s.M[uint16(x>>16)]
	if c == nil {
		return false
	}
	l := x & 0xFFFF
	return c[l>>6]&(1<<(l&63)) != 0
}

// Add returns true iff membership changed.
func (s *Set32) Add(x uint32) bool {
	k := uint16(x >> 16)
	c := s.M[k]
	if c == nil {
		c = new(Chunk)
		s.M[k] = c
	}
	l := x & 0xFFFF
	old := c[l>>6]
	c[l>>6] |= 1 << (l & 63)
	return old != c[l>>6]
}

// Remove returns true iff membership changed.
func (s *Set32) Remove(x uint32) bool {
	k := uint16(x >> 16)
	c := s.M[k]
	if c == nil {
		return false
	}
	l := x & 0xFFFF
	old := c[l>>6]
	c[l>>6] &^= 1 << (l & 63)
	ch := old != c[l>>6]
	if ch && chunkEmpty(c) {
		delete(s.M, k)
	}
	return ch
}

// rangeOp applies f to every (chunk, word index, mask) of the half open range [lo,hi).
func (s *Set32) rangeOp(lo, hi uint64, create bool, f func(c *Chunk, w int, mask uint64)) {
	if hi > 1<<32 {
		hi = 1 << 32
	}
	if lo >= hi {
		return
	}
	for k := lo >> 16; k <= (hi-1)>>16; k++ {
		a, b := uint64(0), uint64(65536)
		if k == lo>>16 {
			a = lo & 0xFFFF
		}
		if k == (hi-1)>>16 {
			b = (hi-1)&0xFFFF + 1
		}
		c := s.M[uint16(k)]
		if c == nil {
			if !create {
				continue
			}
			c = new(Chunk)
			s.M[uint16(k)] = c
		}
		for w := a >> 6; w <= (b-1)>>6; w++ {
			mask := ^uint64(0)
			if w == a>>6 {
				mask &= ^uint64(0) << (a & 63)
			}
			if w == (b-1)>>6 {
				mask &= ^uint64(0) >> (63 - (b-1)&63)
			}
			f(c, int(w), mask)
		}
		if chunkEmpty(c) {
			delete(s.M, uint16(k))
		}
	}
}

func (s *Set32) AddRange(lo, hi uint64) {
	s.rangeOp(lo, hi, true, func(c *Chunk, w int, m uint64) { c[w] |= m })
}
func (s *Set32) RemoveRange(lo, hi uint64) {
	s.rangeOp(lo, hi, false, func(c *Chunk, w int, m uint64) { c[w] &^= m })
}
func (s *Set32) FlipRange(lo, hi uint64) {
	s.rangeOp(lo, hi, true, func(c *Chunk, w int, m uint64) { c[w] ^= m })
}

// CardRange counts elements in [lo,hi).
func (s *Set32) CardRange(lo, hi uint64) uint64 {
	n := uint64(0)
	s.rangeOp(lo, hi, false, func(c *Chunk, w int, m uint64) { n += uint64(bits.OnesCount64(c[w] & m)) })
	return n
}

func (s *Set32) Keys() []uint16 {
	ks := make([]uint16, 0, len(s.M))
	for k := range s.M {
		ks = append(ks, k)
	}
	sort.Slice(ks, func(i, j int) bool { return ks[i] < ks[j] })
	return ks
}

func (s *Set32) Card() uint64 {
	n := uint64(0)
	for _, c := range s.M {
		n += uint64(chunkCard(c))
	}
	return n
}

func (s *Set32) IsEmpty() bool { return len(s.M) == 0 }

// Slice lists the elements in increasing order.
func (s *Set32) Slice() []uint32 {
	out := make([]uint32, 0, s.Card())
	for _, k := range s.Keys() {
		c := s.M[k]
		base := uint32(k) << 16
		for w, x := range c {
			for x != 0 {
				t := bits.TrailingZeros64(x)
				out = append(out, base|uint32(w<<6+t))
				x &= x - 1
			}
		}
	}
	return out
}

func (s *Set32) Equal(o *Set32) bool {
	if len(s.M) != len(o.M) {
		return false
	}
	for k, c := range s.M {
		d := o.M[k]
		if d == nil || *c != *d {
			return false
		}
	}
	return true
}

// Hash is a content hash (order independent of map iteration).
func (s *Set32) Hash() uint64 {
	h := fnv.New64a()
	var b [8]byte
	put := func(x uint64) {
		for i := 0; i < 8; i++ {
			b[i] = byte(x >> (8 * i))
		}
		h.Write(b[:])
	}
	for _, k := range s.Keys() {
		put(uint64(k) | 1<<40)
		c := s.M[k]
		for w, x := range c {
			if x != 0 {
				put(uint64(w))
				put(x)
			}
		}
	}
	return h.Sum64()
}

func binop(a, b *Set32, f func(x, y uint64) uint64) *Set32 {
	o := New32()
	var zero Chunk
	seen := map[uint16]bool{}
	do := func(k uint16) {
		if seen[k] {
			return
		}
		seen[k] = true
		ca, cb := a.M[k], b.M[k]
		if ca == nil {
			ca = &zero
		}
		if cb == nil {
			cb = &zero
		}
		var r Chunk
		nz := false
		for i := range r {
			r[i] = f(ca[i], cb[i])
			if r[i] != 0 {
				nz = true
			}
		}
		if nz {
			o.M[k] = &r
		}
	}
	for k := range a.M {
		do(k)
	}
	for k := range b.M {
		do(k)
	}
	return o
}

func And32(a, b *Set32) *Set32    { return binop(a, b, func(x, y uint64) uint64 { return x & y }) }
func Or32(a, b *Set32) *Set32     { return binop(a, b, func(x, y uint64) uint64 { return x | y }) }
func Xor32(a, b *Set32) *Set32    { return binop(a, b, func(x, y uint64) uint64 { return x ^ y }) }
func AndNot32(a, b *Set32) *Set32 { return binop(a, b, func(x, y uint64) uint64 { return x &^ y }) }

// Min / Max: ok=false when empty.
func (s *Set32) Min() (uint32, bool) {
	ks := s.Keys()
	if len(ks) == 0 {
		return 0, false
	}
	c := s.M[ks[0]]
	for w, x := range c {
		if x != 0 {
			return uint32(ks[0])<<16 | uint32(w<<6+bits.TrailingZeros64(x)), true
		}
	}
	panic("empty chunk in model")
}

func (s *Set32) Max() (uint32, bool) {
	ks := s.Keys()
	if len(ks) == 0 {
		return 0, false
	}
	k := ks[len(ks)-1]
	c := s.M[k]
	for w := 1023; w >= 0; w-- {
		if c[w] != 0 {
			return uint32(k)<<16 | uint32(w<<6+63-bits.LeadingZeros64(c[w])), true
		}
	}
	panic("empty chunk in model")
}

// Rank = #{v <= x}.
func (s *Set32) Rank(x uint32) uint64 { return s.CardRange(0, uint64(x)+1) }

// Shift returns {v+d : 0 <= v+d < 2^32}.
func (s *Set32) Shift(d int64) *Set32 {
	o := New32()
	for _, v := range s.Slice() {
		n := int64(v) + d
		if n >= 0 && n < 1<<32 {
			o.Add(uint32(n))
		}
	}
	return o
}
