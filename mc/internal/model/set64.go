package model

import (
	"hash/fnv"
	"sort"
)

// Set64 is a mathematical set of uint64 kept as sorted, disjoint, non-adjacent
// closed intervals. It handles ranges of any width at no cost, which the
// bucketed bit-vector model cannot.
type Set64 struct {
	Iv [][2]uint64 // [lo,hi] inclusive
}

const max64 = ^uint64(0)

func New64() *Set64 { return &Set64{} }

func Of64(vs ...uint64) *Set64 {
	s := New64()
	for _, v := range vs {
		s.Add(v)
	}
	return s
}

func (s *Set64) Clone() *Set64 { return &Set64{Iv: append([][2]uint64(nil), s.Iv...)} }

func (s *Set64) find(x uint64) (int, bool) {
	i := sort.Search(len(s.Iv), func(i int) bool { return s.Iv[i][1] >= x })
	return i, i < len(s.Iv) && s.Iv[i][0] <= x
}

func (s *Set64) Contains(x uint64) bool { _, ok := s.find(x); return ok }

// combine evaluates f(inA,inB) on every elementary segment.
func combine(a, b *Set64, f func(x, y bool) bool) *Set64 {
	cuts := map[uint64]struct{}{0: {}}
	for _, l := range [][][2]uint64{a.Iv, b.Iv} {
		for _, iv := range l {
			cuts[iv[0]] = struct{}{}
			if iv[1] != max64 {
				cuts[iv[1]+1] = struct{}{}
			}
		}
	}
	ps := make([]uint64, 0, len(cuts))
	for p := range cuts {
		ps = append(ps, p)
	}
	sort.Slice(ps, func(i, j int) bool { return ps[i] < ps[j] })
	out := New64()
	for i, p := range ps {
		hi := max64
		if i+1 < len(ps) {
			hi = ps[i+1] - 1
		}
		if f(a.Contains(p), b.Contains(p)) {
			if n := len(out.Iv); n > 0 && out.Iv[n-1][1]+1 == p {
				out.Iv[n-1][1] = hi
			} else {
				out.Iv = append(out.Iv, [2]uint64{p, hi})
			}
		}
	}
	return out
}

func And64(a, b *Set64) *Set64    { return combine(a, b, func(x, y bool) bool { return x && y }) }
func Or64(a, b *Set64) *Set64     { return combine(a, b, func(x, y bool) bool { return x || y }) }
func Xor64(a, b *Set64) *Set64    { return combine(a, b, func(x, y bool) bool { return x != y }) }
func AndNot64(a, b *Set64) *Set64 { return combine(a, b, func(x, y bool) bool { return x && !y }) }

func interval(lo, hi uint64) *Set64 { return &Set64{Iv: [][2]uint64{{lo, hi}}} }

// AddRangeIncl / RemoveRangeIncl / FlipRangeIncl work on [lo,hi] inclusive.
func (s *Set64) AddRangeIncl(lo, hi uint64)    { s.Iv = Or64(s, interval(lo, hi)).Iv }
func (s *Set64) RemoveRangeIncl(lo, hi uint64) { s.Iv = AndNot64(s, interval(lo, hi)).Iv }
func (s *Set64) FlipRangeIncl(lo, hi uint64)   { s.Iv = Xor64(s, interval(lo, hi)).Iv }

// half-open [lo,hi) forms, hi>lo required by callers otherwise no-op.
func (s *Set64) AddRange(lo, hi uint64) {
	if lo < hi {
		s.AddRangeIncl(lo, hi-1)
	}
}
func (s *Set64) RemoveRange(lo, hi uint64) {
	if lo < hi {
		s.RemoveRangeIncl(lo, hi-1)
	}
}
func (s *Set64) FlipRange(lo, hi uint64) {
	if lo < hi {
		s.FlipRangeIncl(lo, hi-1)
	}
}

func (s *Set64) Add(x uint64) bool {
	i, ok := s.find(x)
	if ok {
		return false
	}
	left := i > 0 && s.Iv[i-1][1]+1 == x // (hi+1 cannot wrap: hi < x)
	right := i < len(s.Iv) && x != max64 && s.Iv[i][0] == x+1
	switch {
	case left && right:
		s.Iv[i-1][1] = s.Iv[i][1]
		s.Iv = append(s.Iv[:i], s.Iv[i+1:]...)
	case left:
		s.Iv[i-1][1] = x
	case right:
		s.Iv[i][0] = x
	default:
		s.Iv = append(s.Iv, [2]uint64{})
		copy(s.Iv[i+1:], s.Iv[i:])
		s.Iv[i] = [2]uint64{x, x}
	}
	return true
}

func (s *Set64) Remove(x uint64) bool {
	i, ok := s.find(x)
	if !ok {
		return false
	}
	lo, hi := s.Iv[i][0], s.Iv[i][1]
	switch {
	case lo == hi:
		s.Iv = append(s.Iv[:i], s.Iv[i+1:]...)
	case x == lo:
		s.Iv[i][0] = x + 1
	case x == hi:
		s.Iv[i][1] = x - 1
	default:
		s.Iv = append(s.Iv, [2]uint64{})
		copy(s.Iv[i+1:], s.Iv[i:])
		s.Iv[i] = [2]uint64{lo, x - 1}
		s.Iv[i+1] = [2]uint64{x + 1, hi}
	}
	return true
}

// Card saturates at 2^64-1.
func (s *Set64) Card() uint64 {
	n := uint64(0)
	for _, iv := range s.Iv {
		w := iv[1] - iv[0] + 1
		if w == 0 || n+w < n {
			return max64
		}
		n += w
	}
	return n
}

func (s *Set64) IsEmpty() bool { return len(s.Iv) == 0 }

func (s *Set64) Equal(o *Set64) bool {
	if len(s.Iv) != len(o.Iv) {
		return false
	}
	for i := range s.Iv {
		if s.Iv[i] != o.Iv[i] {
			return false
		}
	}
	return true
}

func (s *Set64) Hash() uint64 {
	h := fnv.New64a()
	var b [16]byte
	for _, iv := range s.Iv {
		for i := 0; i < 8; i++ {
			b[i] = byte(iv[0] >> (8 * i))
			b[8+i] = byte(iv[1] >> (8 * i))
		}
		h.Write(b[:])
	}
	return h.Sum64()
}

func (s *Set64) Min() (uint64, bool) {
	if len(s.Iv) == 0 {
		return 0, false
	}
	return s.Iv[0][0], true
}
func (s *Set64) Max() (uint64, bool) {
	if len(s.Iv) == 0 {
		return 0, false
	}
	return s.Iv[len(s.Iv)-1][1], true
}

// Rank = #{v <= x} (saturating).
func (s *Set64) Rank(x uint64) uint64 {
	n := uint64(0)
	for _, iv := range s.Iv {
		if iv[0] > x {
			break
		}
		hi := iv[1]
		if hi > x {
			hi = x
		}
		n += hi - iv[0] + 1
	}
	return n
}

// Select returns the i-th smallest element.
func (s *Set64) Select(i uint64) (uint64, bool) {
	for _, iv := range s.Iv {
		w := iv[1] - iv[0] + 1
		if w == 0 || i < w {
			return iv[0] + i, true
		}
		i -= w
	}
	return 0, false
}

// First lists the n smallest elements; Last the n largest in decreasing order.
func (s *Set64) First(n int) []uint64 {
	var out []uint64
	for _, iv := range s.Iv {
		for x := iv[0]; ; x++ {
			if len(out) >= n {
				return out
			}
			out = append(out, x)
			if x == iv[1] {
				break
			}
		}
	}
	return out
}

func (s *Set64) Last(n int) []uint64 {
	var out []uint64
	for i := len(s.Iv) - 1; i >= 0; i-- {
		iv := s.Iv[i]
		for x := iv[1]; ; x-- {
			if len(out) >= n {
				return out
			}
			out = append(out, x)
			if x == iv[0] {
				break
			}
		}
	}
	return out
}

// From returns up to n elements >= x in increasing order.
func (s *Set64) From(x uint64, n int) []uint64 {
	var out []uint64
	i, _ := s.find(x)
	for ; i < len(s.Iv); i++ {
		iv := s.Iv[i]
		st := iv[0]
		if st < x {
			st = x
		}
		for y := st; ; y++ {
			if len(out) >= n {
				return out
			}
			out = append(out, y)
			if y == iv[1] {
				break
			}
		}
	}
	return out
}

// FromRuns32 builds a Set64 from per-bucket 32-bit runs.
func (s *Set64) AddRuns32(bucket uint32, runs [][2]uint32) {
	for _, r := range runs {
		lo, hi := uint64(bucket)<<32|uint64(r[0]), uint64(bucket)<<32|uint64(r[1])
		if n := len(s.Iv); n > 0 && s.Iv[n-1][1]+1 == lo && s.Iv[n-1][1] != max64 {
			s.Iv[n-1][1] = hi
		} else {
			s.Iv = append(s.Iv, [2]uint64{lo, hi})
		}
	}
}
