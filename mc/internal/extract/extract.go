// Package extract turns the hook's structural view of a bitmap into the model
// set without calling any library iteration / search / cardinality routine, and
// walks the representation invariants of property C09 independently of Validate.
package extract

import (
	"fmt"
	"math/bits"
	"strings"

	"github.com/RoaringBitmap/roaring/v2"
	"verifmc/internal/model"
)

// Content extracts the element set from the view. Structural damage that makes
// the content ambiguous (duplicate keys) is folded with union.
func Content(v roaring.VerifView) *model.Set32 {
	s := model.New32()
	for i := range v.Chunks {
		ch := &v.Chunks[i]
		c := s.M[ch.Key]
		if c == nil {
			c = new(model.Chunk)
		}
		switch ch.Kind {
		case 0:
			for w, x := range ch.Words {
				if w < 1024 {
					c[w] |= x
				}
			}
		case 1:
			for _, x := range ch.Array {
				c[x>>6] |= 1 << (x & 63)
			}
		case 2:
			for j := 0; j+1 < len(ch.Runs); j += 2 {
				st, ln := int(ch.Runs[j]), int(ch.Runs[j+1])
				en := st + ln
				if en > 65535 {
					en = 65535
				}
				for w := st >> 6; w <= en>>6; w++ {
					mask := ^uint64(0)
					if w == st>>6 {
						mask &= ^uint64(0) << (uint(st) & 63)
					}
					if w == en>>6 {
						mask &= ^uint64(0) >> (63 - uint(en)&63)
					}
					c[w] |= mask
				}
			}
		}
		nz := false
		for _, w := range c {
			if w != 0 {
				nz = true
				break
			}
		}
		if nz {
			s.M[ch.Key] = c
		}
	}
	return s
}

func Of(b *roaring.Bitmap) *model.Set32 { return Content(roaring.VerifViewOf(b)) }

// Invariants is the independent well-formedness walk (property C09's list).
// It returns "" when all hold.
func Invariants(v roaring.VerifView) string {
	if v.LenKeys != v.LenConts || v.LenKeys != v.LenFlags {
		return fmt.Sprintf("slice lengths differ keys=%d containers=%d flags=%d", v.LenKeys, v.LenConts, v.LenFlags)
	}
	for i := range v.Chunks {
		ch := &v.Chunks[i]
		if i > 0 && v.Chunks[i-1].Key >= ch.Key {
			return fmt.Sprintf("keys not strictly increasing at index %d: %d then %d", i, v.Chunks[i-1].Key, ch.Key)
		}
		switch ch.Kind {
		case 0:
			if len(ch.Words) != 1024 {
				return fmt.Sprintf("bitmap chunk key %d has %d words", ch.Key, len(ch.Words))
			}
			n := 0
			for _, w := range ch.Words {
				n += bits.OnesCount64(w)
			}
			if n != ch.Card {
				return fmt.Sprintf("bitmap chunk key %d cached cardinality %d != popcount %d", ch.Key, ch.Card, n)
			}
			if n <= 4096 {
				return fmt.Sprintf("bitmap chunk key %d holds only %d values (must be > 4096)", ch.Key, n)
			}
		case 1:
			if len(ch.Array) == 0 {
				return fmt.Sprintf("empty array chunk key %d", ch.Key)
			}
			if len(ch.Array) > 4096 {
				return fmt.Sprintf("array chunk key %d holds %d values (> 4096)", ch.Key, len(ch.Array))
			}
			for j := 1; j < len(ch.Array); j++ {
				if ch.Array[j-1] >= ch.Array[j] {
					return fmt.Sprintf("array chunk key %d not strictly increasing at %d", ch.Key, j)
				}
			}
		case 2:
			if len(ch.Runs) == 0 {
				return fmt.Sprintf("empty run chunk key %d", ch.Key)
			}
			prevEnd := -2
			for j := 0; j+1 < len(ch.Runs); j += 2 {
				st, ln := int(ch.Runs[j]), int(ch.Runs[j+1])
				if st+ln > 65535 {
					return fmt.Sprintf("run chunk key %d run (%d,+%d) leaves 0..65535", ch.Key, st, ln)
				}
				if st <= prevEnd+1 {
					return fmt.Sprintf("run chunk key %d runs unsorted/overlapping/adjacent at run %d (start %d, previous end %d)", ch.Key, j/2, st, prevEnd)
				}
				prevEnd = st + ln
			}
		default:
			return fmt.Sprintf("unknown container kind at key %d", ch.Key)
		}
	}
	return ""
}

var kindName = [...]string{"B", "A", "R"}

// Sig is the hidden-representation signature used in canonical state keys:
// per chunk kind, cached cardinality, run count, copy-on-write flag and (for
// arrays and runs) capacity class; plus the bitmap's copy-on-write switch.
func Sig(v roaring.VerifView, withCap bool) string {
	var sb strings.Builder
	if v.COW {
		sb.WriteString("W")
	} else {
		sb.WriteString("w")
	}
	for i := range v.Chunks {
		ch := &v.Chunks[i]
		k := "?"
		if int(ch.Kind) < 3 {
			k = kindName[ch.Kind]
		}
		fmt.Fprintf(&sb, "|%d%s", ch.Key, k)
		if ch.COW {
			sb.WriteString("c")
		}
		switch ch.Kind {
		case 0:
			fmt.Fprintf(&sb, "%d", ch.Card)
		case 1, 2:
			fmt.Fprintf(&sb, "%d", ch.DataLen)
			if withCap {
				// capacity matters only as "room for in-place growth or not"
				fmt.Fprintf(&sb, "/%d", capClass(ch.DataLen, ch.DataCap))
			}
		}
	}
	return sb.String()
}

func capClass(l, c int) int {
	switch {
	case c == l:
		return 0
	case c-l < 4:
		return c - l
	case c < 2*l:
		return 4
	default:
		return 5
	}
}

// Kinds returns a short string of chunk kinds, e.g. "ABR".
func Kinds(v roaring.VerifView) string {
	var sb strings.Builder
	for i := range v.Chunks {
		if int(v.Chunks[i].Kind) < 3 {
			sb.WriteString(kindName[v.Chunks[i].Kind])
		} else {
			sb.WriteString("?")
		}
	}
	return sb.String()
}
