package extract

import (
	"fmt"
	"math/bits"
	"sort"

	"github.com/RoaringBitmap/roaring/v2"
	"github.com/RoaringBitmap/roaring/v2/roaring64"
	"verifmc/internal/model"
)

// Runs32 lists the maximal runs [lo,hi] of a 32-bit bitmap straight from its
// view, chunk by chunk, without materialising a bit vector per chunk.
func Runs32(v roaring.VerifView) [][2]uint32 {
	var out [][2]uint32
	emit := func(lo, hi uint32) {
		if n := len(out); n > 0 && out[n-1][1] != 0xFFFFFFFF && out[n-1][1]+1 == lo {
			out[n-1][1] = hi
			return
		}
		out = append(out, [2]uint32{lo, hi})
	}
	for i := range v.Chunks {
		ch := &v.Chunks[i]
		base := uint32(ch.Key) << 16
		switch ch.Kind {
		case 0:
			for w := 0; w < len(ch.Words) && w < 1024; w++ {
				x := ch.Words[w]
				for x != 0 {
					t := bits.TrailingZeros64(x)
					ones := bits.TrailingZeros64(^(x >> uint(t)))
					lo := uint32(w*64 + t)
					emit(base|lo, base|(lo+uint32(ones)-1))
					if t+ones >= 64 {
						break
					}
					x &^= (uint64(1)<<uint(t+ones) - 1)
				}
			}
		case 1:
			for j := 0; j < len(ch.Array); {
				k := j
				for k+1 < len(ch.Array) && ch.Array[k+1] == ch.Array[k]+1 {
					k++
				}
				emit(base|uint32(ch.Array[j]), base|uint32(ch.Array[k]))
				k++
				j = k
			}
		case 2:
			for j := 0; j+1 < len(ch.Runs); j += 2 {
				st, ln := uint32(ch.Runs[j]), uint32(ch.Runs[j+1])
				en := st + ln
				if en > 65535 {
					en = 65535
				}
				emit(base|st, base|en)
			}
		}
	}
	return out
}

// Of64 extracts the element set of a 64-bit bitmap as normalised intervals.
func Of64(b *roaring64.Bitmap) *model.Set64 {
	v := roaring64.VerifViewOf(b)
	var iv [][2]uint64
	for _, bk := range v.Buckets {
		if bk.Inner == nil {
			continue
		}
		for _, r := range Runs32(roaring.VerifViewOf(bk.Inner)) {
			iv = append(iv, [2]uint64{uint64(bk.Key)<<32 | uint64(r[0]), uint64(bk.Key)<<32 | uint64(r[1])})
		}
	}
	sort.Slice(iv, func(i, j int) bool { return iv[i][0] < iv[j][0] })
	s := model.New64()
	for _, x := range iv {
		if n := len(s.Iv); n > 0 && (s.Iv[n-1][1] == ^uint64(0) || s.Iv[n-1][1]+1 >= x[0]) {
			if x[1] > s.Iv[n-1][1] {
				s.Iv[n-1][1] = x[1]
			}
			continue
		}
		s.Iv = append(s.Iv, x)
	}
	return s
}

// Invariants64: buckets strictly increasing, none empty, each inner bitmap well formed.
func Invariants64(b *roaring64.Bitmap) string {
	v := roaring64.VerifViewOf(b)
	if v.LenKeys != v.LenConts || v.LenKeys != v.LenFlags {
		return fmt.Sprintf("slice lengths differ keys=%d containers=%d flags=%d", v.LenKeys, v.LenConts, v.LenFlags)
	}
	for i, bk := range v.Buckets {
		if i > 0 && v.Buckets[i-1].Key >= bk.Key {
			return fmt.Sprintf("bucket keys not strictly increasing at index %d: %d then %d", i, v.Buckets[i-1].Key, bk.Key)
		}
		if bk.Inner == nil {
			return fmt.Sprintf("nil inner bitmap at bucket %d", bk.Key)
		}
		iv := roaring.VerifViewOf(bk.Inner)
		if len(iv.Chunks) == 0 {
			return fmt.Sprintf("empty inner bitmap at bucket %d", bk.Key)
		}
		if s := Invariants(iv); s != "" {
			return fmt.Sprintf("bucket %d: %s", bk.Key, s)
		}
	}
	return ""
}

// Sig64 is the representation signature of a 64-bit bitmap.
func Sig64(b *roaring64.Bitmap) string {
	v := roaring64.VerifViewOf(b)
	s := "w"
	if v.COW {
		s = "W"
	}
	for _, bk := range v.Buckets {
		s += fmt.Sprintf("[%d", bk.Key)
		if bk.COW {
			s += "c"
		}
		if bk.Inner != nil {
			s += ":" + Sig(roaring.VerifViewOf(bk.Inner), false)
		}
		s += "]"
	}
	return s
}
