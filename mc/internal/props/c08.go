package props

import (
	"bytes"
	"fmt"
	"runtime"
	"runtime/debug"

	"github.com/RoaringBitmap/roaring/v2"
	"verifmc/internal/env"
	"verifmc/internal/ev"
	"verifmc/internal/explore"
	"verifmc/internal/extract"
	"verifmc/internal/model"
	"verifmc/internal/shapes"
)

func init() { Drivers["C08"] = Driver{Level: "model_checking", Run: runC08} }

// W08 is the world of property C08: a zero-copy view V of a caller-owned buffer,
// a derived bitmap D, a plain partner P.
type W08 struct {
	G        *env.Guarded
	Orig     []byte
	Regs     [3]*roaring.Bitmap // V, D (may be nil), P
	M        [3]*model.Set32
	Dep      [3]bool // depends (possibly) on the buffer
	Gone     bool    // the buffer was overwritten or discarded
	Unmapped bool
}

var regName = [3]string{"V", "D", "P"}

func (w *W08) close() {
	if w.G != nil && !w.Unmapped {
		w.G.Free()
	}
	w.G = nil
}

// loader: 0 FromBuffer, 1 FromUnsafeBytes, 2 FrozenView; +3: into a previously used receiver (eight plain chunks the
// receiver owns: its per-chunk bookkeeping is stale when the view is loaded over it)
func newW08(seed shapes.Spec, loader int) func() *W08 {
	used := loader >= 3
	loader %= 3
	return func() *W08 {
		debug.SetPanicOnFault(true)
		src := seed.Build()
		var data []byte
		var err error
		if loader == 2 {
			data, err = src.B.Freeze()
		} else {
			data, err = src.B.ToBytes()
		}
		if err != nil {
			panic("c08 seed: " + err.Error())
		}
		g := env.NewGuarded(len(data), true)
		copy(g.Data, data)
		g.ReadOnly(true)
		v := roaring.New()
		if used {
			for k := uint32(0); k < 8; k++ {
				v.Add(k<<16 | 7)
				v.AddRange(uint64(k)<<16|100, uint64(k)<<16|200)
			}
			v.Remove(7) // a history of in-place writes on chunks the receiver owns
		}
		switch loader {
		case 0:
			_, err = v.FromBuffer(g.Data)
		case 1:
			_, err = v.FromUnsafeBytes(g.Data)
		default:
			err = v.FrozenView(g.Data)
		}
		if err != nil {
			panic("c08 load: " + err.Error())
		}
		p := shapes.Spec{Chunks: []shapes.ChunkSpec{{Key: 0, Mask: bit(shapes.Lo, shapes.Mid)}, {Key: 1, Mask: bit(shapes.Big)}, {Key: 4, Mask: bit(shapes.Lo)}}, Mode: shapes.Opt}.Build()
		w := &W08{G: g, Orig: data}
		w.Regs[0], w.M[0], w.Dep[0] = v, src.M, true
		w.Regs[2], w.M[2] = p.B, p.M
		return w
	}
}

type op08 = explore.Op[*W08]

// q08: first operand of the three-way unions: one value in chunk 9, above every chunk of the view and of the partner,
// so that the view's chunks which the partner lacks are inserted in front of an accumulated chunk.
func q08() *roaring.Bitmap { return roaring.BitmapOf(9<<16 | 3) }
func q08m() *model.Set32 {
	m := model.New32()
	m.Add(9<<16 | 3)
	return m
}

// usable: a register may be touched. After the buffer is gone only independent registers may.
func (w *W08) usable(i int) bool { return w.Regs[i] != nil && !(w.Gone && w.Dep[i]) }

func mut08(i int, name string, f func(b *roaring.Bitmap, m *model.Set32) *model.Set32) op08 {
	return op08{Name: regName[i] + "." + name, F: func(w *W08) (string, *ev.Fail) {
		if !w.usable(i) {
			return "skip", nil
		}
		w.M[i] = f(w.Regs[i], w.M[i].Clone())
		return "", nil
	}}
}

func ops08(quick bool) []op08 {
	var ops []op08
	for _, i := range []int{0, 1, 2} {
		i := i
		ops = append(ops,
			mut08(i, "Add(first absent of its first chunk)", func(b *roaring.Bitmap, m *model.Set32) *model.Set32 {
				ks := m.Keys()
				k := uint16(0)
				if len(ks) > 0 {
					k = ks[0]
				}
				if x, ok := firstAbsent(m, k); ok {
					b.Add(x)
					m.Add(x)
				}
				return m
			}),
			mut08(i, "Remove(minimum)", func(b *roaring.Bitmap, m *model.Set32) *model.Set32 {
				if x, ok := m.Min(); ok {
					b.Remove(x)
					m.Remove(x)
				}
				return m
			}),
			mut08(i, "Remove(maximum)", func(b *roaring.Bitmap, m *model.Set32) *model.Set32 {
				if x, ok := m.Max(); ok {
					b.Remove(x)
					m.Remove(x)
				}
				return m
			}),
			mut08(i, "RemoveRange(its first chunk)", func(b *roaring.Bitmap, m *model.Set32) *model.Set32 {
				if ks := m.Keys(); len(ks) > 0 {
					s := uint64(ks[0]) << 16
					b.RemoveRange(s, s+65536)
					m.RemoveRange(s, s+65536)
				}
				return m
			}),
			mut08(i, "RemoveRange(0, 2 chunks)", func(b *roaring.Bitmap, m *model.Set32) *model.Set32 {
				b.RemoveRange(0, 2<<16)
				m.RemoveRange(0, 2<<16)
				return m
			}),
			mut08(i, "RemoveRange(5, chunk 1 + 5)", func(b *roaring.Bitmap, m *model.Set32) *model.Set32 {
				b.RemoveRange(5, 1<<16+5)
				m.RemoveRange(5, 1<<16+5)
				return m
			}),
			mut08(i, "Flip(100, 70000)", func(b *roaring.Bitmap, m *model.Set32) *model.Set32 {
				b.Flip(100, 70000)
				m.FlipRange(100, 70000)
				return m
			}),
			mut08(i, "CloneCopyOnWriteContainers()", func(b *roaring.Bitmap, m *model.Set32) *model.Set32 {
				b.CloneCopyOnWriteContainers()
				return m
			}),
		)
		if !quick || i == 0 {
			// writes that leave a MIXED pattern of owned and still-shared chunks, and a removal of whole interior chunks
			// that starts behind the first chunk (per-chunk bookkeeping must shift with the chunks)
			for _, par := range []int{0, 1} {
				par := par
				ops = append(ops, mut08(i, fmt.Sprintf("Remove(first value of every chunk with index %% 2 == %d)", par), func(b *roaring.Bitmap, m *model.Set32) *model.Set32 {
					for j, k := range m.Keys() {
						if j%2 == par {
							if x, ok := firstPresent(m, k); ok {
								b.Remove(x)
								m.Remove(x)
							}
						}
					}
					return m
				}))
			}
			ops = append(ops, mut08(i, "RemoveRange(chunks 1 and 2)", func(b *roaring.Bitmap, m *model.Set32) *model.Set32 {
				b.RemoveRange(1<<16, 3<<16)
				m.RemoveRange(1<<16, 3<<16)
				return m
			}))
			ops = append(ops,
				mut08(i, "AddRange(chunk 1)", func(b *roaring.Bitmap, m *model.Set32) *model.Set32 {
					b.AddRange(65536, 131072)
					m.AddRange(65536, 131072)
					return m
				}),
				mut08(i, "AddMany(stripe in chunk 0)", func(b *roaring.Bitmap, m *model.Set32) *model.Set32 {
					vs := atomVals(shapes.S1000a, 0)
					b.AddMany(vs)
					for _, v := range vs {
						m.Add(v)
					}
					return m
				}),
				mut08(i, "RunOptimize()", func(b *roaring.Bitmap, m *model.Set32) *model.Set32 { b.RunOptimize(); return m }),
			)
		}
	}
	// the detach marker: CloneCopyOnWriteContainers severs the dependency of that register
	for i := range regName {
		i := i
		name := regName[i] + ".CloneCopyOnWriteContainers()"
		for k := range ops {
			if ops[k].Name == name {
				inner := ops[k].F
				ops[k].F = func(w *W08) (string, *ev.Fail) {
					o, f := inner(w)
					if o != "skip" {
						w.Dep[i] = false
					}
					return o, f
				}
			}
		}
	}
	derive := func(name string, f func(v, p *roaring.Bitmap) *roaring.Bitmap, mf func(v, p *model.Set32) *model.Set32) op08 {
		return op08{Name: "D := " + name, F: func(w *W08) (string, *ev.Fail) {
			if !w.usable(0) || !w.usable(2) {
				return "skip", nil
			}
			w.Regs[1] = f(w.Regs[0], w.Regs[2])
			w.M[1] = mf(w.M[0], w.M[2])
			w.Dep[1] = w.Dep[0] || w.Dep[2]
			return "", nil
		}}
	}
	ops = append(ops,
		derive("Clone(V)", func(v, p *roaring.Bitmap) *roaring.Bitmap { return v.Clone() }, func(v, p *model.Set32) *model.Set32 { return v.Clone() }),
		derive("Or(V,P)", roaring.Or, model.Or32),
		derive("And(V,P)", roaring.And, model.And32),
		derive("Xor(P,V)", func(v, p *roaring.Bitmap) *roaring.Bitmap { return roaring.Xor(p, v) }, func(v, p *model.Set32) *model.Set32 { return model.Xor32(p, v) }),
		derive("AndNot(V,P)", roaring.AndNot, model.AndNot32),
		derive("FastOr(V,P)", func(v, p *roaring.Bitmap) *roaring.Bitmap { return roaring.FastOr(v, p) }, model.Or32),
		derive("ParOr(2,P,V)", func(v, p *roaring.Bitmap) *roaring.Bitmap { return roaring.ParOr(2, p, v) }, model.Or32),
		derive("Flip(V,5,9<<16)", func(v, p *roaring.Bitmap) *roaring.Bitmap { return roaring.Flip(v, 5, 9<<16) }, func(v, p *model.Set32) *model.Set32 {
			m := v.Clone()
			m.FlipRange(5, 9<<16)
			return m
		}),
		derive("FastOr(Q,P,V)", func(v, p *roaring.Bitmap) *roaring.Bitmap { return roaring.FastOr(q08(), p, v) }, func(v, p *model.Set32) *model.Set32 { return model.Or32(model.Or32(q08m(), p), v) }),
		derive("ParOr(1,Q,P,V)", func(v, p *roaring.Bitmap) *roaring.Bitmap { return roaring.ParOr(1, q08(), p, v) }, func(v, p *model.Set32) *model.Set32 { return model.Or32(model.Or32(q08m(), p), v) }),
		derive("HeapOr(Q,P,V)", func(v, p *roaring.Bitmap) *roaring.Bitmap { return roaring.HeapOr(q08(), p, v) }, func(v, p *model.Set32) *model.Set32 { return model.Or32(model.Or32(q08m(), p), v) }),
		derive("AddOffset(V,65536)", func(v, p *roaring.Bitmap) *roaring.Bitmap { return roaring.AddOffset(v, 65536) }, func(v, p *model.Set32) *model.Set32 { return v.Shift(65536) }),
	)
	inplace := func(dst, src int, op binCall) op08 {
		return op08{Name: fmt.Sprintf("%s.%s(%s)", regName[dst], op.Name, regName[src]), F: func(w *W08) (string, *ev.Fail) {
			if !w.usable(dst) || !w.usable(src) {
				return "skip", nil
			}
			op.InPlace(w.Regs[dst], w.Regs[src])
			w.M[dst] = op.Model(w.M[dst], w.M[src])
			w.Dep[dst] = w.Dep[dst] || w.Dep[src]
			return "", nil
		}}
	}
	for _, op := range binOps {
		ops = append(ops, inplace(0, 2, op), inplace(2, 0, op))
		if !quick {
			ops = append(ops, inplace(1, 0, op))
		}
	}
	ops = append(ops,
		op08{Name: "GC", F: func(w *W08) (string, *ev.Fail) { gcNow(); return "", nil }},
		op08{Name: "Scribble(buffer := 0xA5...)", F: func(w *W08) (string, *ev.Fail) {
			if w.Gone {
				return "skip", nil
			}
			if !bytes.Equal(w.G.Data, w.Orig) {
				return "", fail("buffer", "written", "the caller's buffer was modified before the caller touched it")
			}
			w.G.ReadOnly(false)
			for i := range w.G.Data {
				w.G.Data[i] = 0xA5
			}
			w.Gone = true
			return "", nil
		}},
		op08{Name: "Discard(munmap buffer)", F: func(w *W08) (string, *ev.Fail) {
			if w.Gone {
				return "skip", nil
			}
			if !bytes.Equal(w.G.Data, w.Orig) {
				return "", fail("buffer", "written", "the caller's buffer was modified before the caller touched it")
			}
			w.G.Free()
			w.Gone, w.Unmapped = true, true
			return "", nil
		}},
	)
	return ops
}

func check08(w *W08) *ev.Fail {
	if !w.Gone && !bytes.Equal(w.G.Data, w.Orig) {
		return fail("buffer", "written", "the caller's buffer was modified")
	}
	for i, b := range w.Regs {
		if !w.usable(i) {
			continue
		}
		v := roaring.VerifViewOf(b)
		if got := extract.Content(v); !got.Equal(w.M[i]) {
			what := "while the buffer is intact"
			if w.Gone {
				what = "after it was detached with CloneCopyOnWriteContainers and the buffer was overwritten/discarded"
			}
			return fail("zero-copy", "register:"+regName[i], "bitmap %s no longer holds its contents %s: %s", regName[i], what, diff32(got, w.M[i]))
		}
		if c := b.GetCardinality(); c != w.M[i].Card() {
			return fail("zero-copy", "cardinality:"+regName[i], "bitmap %s GetCardinality()=%d want %d", regName[i], c, w.M[i].Card())
		}
	}
	return nil
}

func key08(w *W08) string {
	s := fmt.Sprintf("gone=%v/%v", w.Gone, w.Unmapped)
	for i, b := range w.Regs {
		if b == nil {
			s += "|nil"
			continue
		}
		if w.Gone && w.Dep[i] {
			s += "|dead"
			continue
		}
		s += fmt.Sprintf("|%x:%s:%v", w.M[i].Hash(), extract.Sig(roaring.VerifViewOf(b), false), w.Dep[i])
	}
	return s
}

func runC08(c *Ctx) {
	q := c.Quick()
	A := bit(shapes.Lo, shapes.W, shapes.Mid)
	B := bit(shapes.S4095, shapes.Lo, shapes.Hi)
	R := bit(shapes.Big)
	type ks = []shapes.ChunkSpec
	seeds := []struct {
		name string
		sp   shapes.Spec
	}{
		{"3 chunks A/B/R", shapes.Spec{Chunks: ks{{Key: 0, Mask: A}, {Key: 1, Mask: B}, {Key: 2, Mask: R}}, Mode: shapes.Opt}},
		{"1 array chunk", shapes.Spec{Chunks: ks{{Key: 0, Mask: A}}, Mode: shapes.Points}},
		{"5 chunks mixed", shapes.Spec{Chunks: ks{{Key: 0, Mask: A}, {Key: 1, Mask: R}, {Key: 2, Mask: A}, {Key: 3, Mask: B}, {Key: 5, Mask: R}}, Mode: shapes.Opt}},
		{"1 run chunk", shapes.Spec{Chunks: ks{{Key: 0, Mask: R}}, Mode: shapes.Opt}},
		{"1 bitmap chunk", shapes.Spec{Chunks: ks{{Key: 1, Mask: B}}, Mode: shapes.Points}},
	}
	loaders := []string{"FromBuffer", "FromUnsafeBytes", "FrozenView", "FromBuffer into a used receiver", "FromUnsafeBytes into a used receiver", "FrozenView into a used receiver"}
	var scs []explore.Scenario
	n := 0
	for si, sd := range seeds {
		for li, ln := range loaders {
			if q && !((si == 0 && li != 5) || (si == 2 && li == 1) || (si == 1 && li == 2)) {
				continue
			}
			b := &explore.BFS[*W08]{
				Name: fmt.Sprintf("%s(%s)", ln, sd.name), New: newW08(sd.sp, li), Ops: ops08(q), MaxDepth: 3,
				Key: key08, Check: check08, Close: func(w *W08) { w.close() },
			}
			if !q {
				b.MaxDepth = 4
				b.Deadline = c.Budget(0, 110*(n+1))
			} else {
				b.Deadline = c.Budget(22*(n+1), 0)
			}
			n++
			scs = append(scs, b)
		}
	}
	c.R.Assume("the caller's buffer is mapped PROT_READ between guard pages: a write into it faults; GC is an explicit event and the process runs with GODEBUG=clobberfree=1")
	c.R.Assume("SetCopyOnWrite on a zero-copy bitmap is documented as unsafe and is outside the alphabet")
	scs = append(scs, c08Scenario64(c))
	runScenarios(c, scs...)
	runtime.KeepAlive(scs)
}
