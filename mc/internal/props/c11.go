package props

import (
	"fmt"
	"runtime"
	"sync/atomic"

	"github.com/RoaringBitmap/roaring/v2"
	"verifmc/internal/ev"
	"verifmc/internal/explore"
	"verifmc/internal/extract"
	"verifmc/internal/model"
	"verifmc/internal/shapes"
)

func init() { Drivers["C11"] = Driver{Level: "model_checking", Run: runC11} }

func c11Pool(quick bool) []recipe {
	type ks = []shapes.ChunkSpec
	A := bit(shapes.Lo, shapes.Mid)
	specs := []ks{
		{},
		{{Key: 0, Mask: A}},
		{{Key: 1, Mask: bit(shapes.S1000a)}},
		{{Key: 1, Mask: bit(shapes.S1000b)}},
		{{Key: 1, Mask: bit(shapes.Full)}, {Key: 2, Mask: bit(shapes.Hi)}},
		{{Key: 0, Mask: bit(shapes.R2047)}, {Key: 2, Mask: bit(shapes.S4095, shapes.Lo, shapes.Hi)}},
		{{Key: 0xFFF7, Mask: A}, {Key: 0xFFFB, Mask: bit(shapes.Big)}, {Key: 0xFFFF, Mask: A}},
		{{Key: 0xFFFF, Mask: bit(shapes.Hi)}},
		{{Key: 0, Mask: bit(shapes.Big)}, {Key: 1, Mask: A}, {Key: 2, Mask: A}, {Key: 3, Mask: A}, {Key: 4, Mask: A}, {Key: 5, Mask: A}, {Key: 6, Mask: A}, {Key: 7, Mask: A}, {Key: 8, Mask: A}, {Key: 9, Mask: bit(shapes.Full)}},
		{{Key: 5, Mask: bit(shapes.Big, shapes.Lo)}},
	}
	var rs []recipe
	for i, cs := range specs {
		rs = append(rs, specRecipe(shapes.Spec{Chunks: cs, Mode: shapes.Opt}))
		if !quick && i%3 == 1 {
			rs = append(rs, specRecipe(shapes.Spec{Chunks: cs, Mode: shapes.Points, Share: shapes.COW}))
		}
	}
	if !quick {
		rs = append(rs, specRecipe(shapes.Spec{Chunks: specs[5], Mode: shapes.Opt, Share: shapes.ZeroC}))
	}
	return rs
}

type aggregate struct {
	Name    string
	Workers bool
	F       func(w int, bs []*roaring.Bitmap) *roaring.Bitmap
	Model   func(ms []*model.Set32) *model.Set32
}

func aggregates() []aggregate {
	return []aggregate{
		{"FastOr", false, func(_ int, bs []*roaring.Bitmap) *roaring.Bitmap { return roaring.FastOr(bs...) }, foldOr},
		{"HeapOr", false, func(_ int, bs []*roaring.Bitmap) *roaring.Bitmap { return roaring.HeapOr(bs...) }, foldOr},
		{"ParOr", true, func(w int, bs []*roaring.Bitmap) *roaring.Bitmap { return roaring.ParOr(w, bs...) }, foldOr},
		{"ParHeapOr", true, func(w int, bs []*roaring.Bitmap) *roaring.Bitmap { return roaring.ParHeapOr(w, bs...) }, foldOr},
		{"FastAnd", false, func(_ int, bs []*roaring.Bitmap) *roaring.Bitmap { return roaring.FastAnd(bs...) }, foldAnd},
		{"ParAnd", true, func(w int, bs []*roaring.Bitmap) *roaring.Bitmap { return roaring.ParAnd(w, bs...) }, foldAnd},
		{"HeapXor", false, func(_ int, bs []*roaring.Bitmap) *roaring.Bitmap { return roaring.HeapXor(bs...) }, foldXor},
	}
}

func runC11(c *Ctx) {
	q := c.Quick()
	pool := c11Pool(q)
	aggs := aggregates()
	workers := []int{0, 1, 2, 3, 5}
	maxLen := 4
	if q {
		maxLen = 3
	}
	// all lists (sequences with repetition) of length 0..maxLen
	var lists [][]int
	var gen func(cur []int)
	gen = func(cur []int) {
		lists = append(lists, append([]int(nil), cur...))
		if len(cur) == maxLen {
			return
		}
		for i := range pool {
			gen(append(cur, i))
		}
	}
	gen(nil)
	var execs int64
	p1 := &explore.Product{Name: fmt.Sprintf("all lists <= %d over the pool x aggregates x worker counts", maxLen), Dims: []int{len(lists), len(aggs)}, Deadline: c.Budget(70, 1300), Execs: &execs,
		Run: func(idx []int) (string, *ev.Fail) {
			l := lists[idx[0]]
			ag := aggs[idx[1]]
			ws := []int{0}
			if ag.Workers {
				ws = workers
			}
			for _, w := range ws {
				built := make([]*shapes.Built, len(l))
				bs := make([]*roaring.Bitmap, len(l))
				ms := make([]*model.Set32, len(l))
				for i, pi := range l {
					built[i] = pool[pi].Build()
					bs[i], ms[i] = built[i].B, built[i].M
				}
				// duplicates by construction: the same object twice when the same pool index repeats adjacent
				for i := 1; i < len(l); i++ {
					if l[i] == l[i-1] {
						bs[i] = bs[i-1]
					}
				}
				want := ag.Model(ms)
				r := ag.F(w, bs)
				atomic.AddInt64(&execs, 1)
				name := fmt.Sprintf("%s(workers=%d, %d bitmaps)", ag.Name, w, len(l))
				if got := extract.Of(r); !got.Equal(want) {
					return "", fail(ag.Name, "result", "%s wrong: %s", name, diff32(got, want))
				}
				if f := checkValid32(name, r); f != nil {
					f.API = ag.Name
					return "", f
				}
				for i := range built {
					if got := extract.Of(built[i].B); !got.Equal(ms[i]) {
						return "", fail(ag.Name, "operand-modified", "%s modified operand %d: %s", name, i, diff32(got, ms[i]))
					}
				}
				runtime.KeepAlive(built)
			}
			// x.AndAny(list) for a non-empty list: x = every pool state
			if idx[1] == 0 && len(l) > 0 {
				for xi := range pool {
					x := pool[xi].Build()
					bs := make([]*roaring.Bitmap, len(l))
					ms := make([]*model.Set32, len(l))
					var built []*shapes.Built
					for i, pi := range l {
						b := pool[pi].Build()
						built = append(built, b)
						bs[i], ms[i] = b.B, b.M
					}
					want := model.And32(x.M, foldOr(ms))
					x.B.AndAny(bs...)
					atomic.AddInt64(&execs, 1)
					if got := extract.Of(x.B); !got.Equal(want) {
						return "", fail("AndAny", "result", "x.AndAny(%d bitmaps) wrong: %s", len(l), diff32(got, want))
					}
					if f := checkValid32("AndAny", x.B); f != nil {
						f.API = "AndAny"
						return "", f
					}
					for i := range built {
						if got := extract.Of(built[i].B); !got.Equal(ms[i]) {
							return "", fail("AndAny", "operand-modified", "AndAny modified list member %d", i)
						}
					}
					runtime.KeepAlive(built)
					runtime.KeepAlive(x)
				}
			}
			return ag.Name, nil
		},
		Describe: func(idx []int) any {
			var names []string
			for _, pi := range lists[idx[0]] {
				names = append(names, pool[pi].Name)
			}
			return map[string]any{"list": names, "aggregate": aggs[idx[1]].Name}
		}}
	// key-span family for the Par* functions: lowest key l, span r, one tiny chunk per key (and a sparse variant)
	maxSpan := 40
	var execs2 int64
	lows := []int{0, -1, 0x7000} // -1: top-aligned (highest key 0xFFFF)
	p2 := &explore.Product{Name: "key-span family x worker counts (Par*)", Dims: []int{maxSpan, len(lows), 3}, Deadline: c.Budget(110, 1700), Execs: &execs2,
		Run: func(idx []int) (string, *ev.Fail) {
			r := idx[0] + 1
			lo := lows[idx[1]]
			if lo < 0 {
				lo = 0x10000 - r
			}
			variant := idx[2] // 0: one bitmap per key; 1: two bitmaps, even/odd keys; 2: three bitmaps, sparse (first, middle, last key)
			var bs []*roaring.Bitmap
			var ms []*model.Set32
			add := func(keys []int) {
				b, m := roaring.New(), model.New32()
				for _, k := range keys {
					v := uint32(k)<<16 | uint32(k&0xFF)
					b.Add(v)
					m.Add(v)
				}
				bs, ms = append(bs, b), append(ms, m)
			}
			switch variant {
			case 0:
				for k := lo; k < lo+r; k++ {
					add([]int{k})
				}
			case 1:
				var ev2, od []int
				for k := lo; k < lo+r; k++ {
					if k%2 == 0 {
						ev2 = append(ev2, k)
					} else {
						od = append(od, k)
					}
				}
				add(ev2)
				add(od)
				add([]int{lo, lo + r - 1})
			default:
				add([]int{lo})
				add([]int{lo + r/2})
				add([]int{lo + r - 1})
			}
			wantOr, wantAnd := foldOr(ms), foldAnd(ms)
			for w := 0; w <= 5; w++ {
				for ai, f := range []func(int, ...*roaring.Bitmap) *roaring.Bitmap{roaring.ParOr, roaring.ParHeapOr, roaring.ParAnd} {
					args := append([]*roaring.Bitmap(nil), bs...)
					res := f(w, args...)
					atomic.AddInt64(&execs2, 1)
					want := wantOr
					name := []string{"ParOr", "ParHeapOr", "ParAnd"}[ai]
					if ai == 2 {
						want = wantAnd
					}
					desc := fmt.Sprintf("%s(workers=%d) over %d bitmaps, keys %#x..%#x", name, w, len(bs), lo, lo+r-1)
					if got := extract.Of(res); !got.Equal(want) {
						return "", fail(name, "keyspan-result", "%s wrong: %s", desc, diff32(got, want))
					}
					if f := checkValid32(desc, res); f != nil {
						f.API = name
						return "", f
					}
				}
			}
			return fmt.Sprint(variant), nil
		},
		Describe: func(idx []int) any {
			return map[string]any{"span": idx[0] + 1, "low": lows[idx[1]], "variant": idx[2]}
		}}
	c.R.Assume("this check runs the Par* functions under the free Go scheduler; schedule dependence is decided by C12")
	runScenarios(c, p1, p2)
}
