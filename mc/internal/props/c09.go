package props

import (
	"bytes"
	"fmt"
	"runtime"

	"github.com/RoaringBitmap/roaring/v2"
	"verifmc/internal/ev"
	"verifmc/internal/explore"
	"verifmc/internal/extract"
	"verifmc/internal/shapes"
)

func init() { Drivers["C09"] = Driver{Level: "model_checking", Run: runC09} }

// roundTripValid: serialise b in the portable and the frozen format, read it
// back through the copying and the zero-copy decoders, and require Validate()==nil.
func roundTripValid(api string, b *roaring.Bitmap) *ev.Fail {
	var buf bytes.Buffer
	if _, err := b.WriteTo(&buf); err != nil {
		return fail("WriteTo", "error:"+err.Error(), "WriteTo of a library-made bitmap failed after %s: %v", api, err)
	}
	data := shapes.Aligned(buf.Bytes())
	r1 := roaring.New()
	if _, err := r1.ReadFrom(bytes.NewReader(data)); err != nil {
		return fail("ReadFrom", "error", "ReadFrom of own bytes failed after %s: %v", api, err)
	}
	if f := checkValid32(api+"+portable round trip(ReadFrom)", r1); f != nil {
		return f
	}
	r2 := roaring.New()
	if _, err := r2.FromUnsafeBytes(data); err != nil {
		return fail("FromUnsafeBytes", "error", "FromUnsafeBytes of own bytes failed after %s: %v", api, err)
	}
	if f := checkValid32(api+"+portable round trip(FromUnsafeBytes)", r2); f != nil {
		return f
	}
	fz, err := b.Freeze()
	if err != nil {
		return fail("Freeze", "error", "Freeze failed after %s: %v", api, err)
	}
	fz = shapes.Aligned(fz)
	r3 := roaring.New()
	if err := r3.FrozenView(fz); err != nil {
		return fail("FrozenView", "error", "FrozenView of own bytes failed after %s: %v", api, err)
	}
	if f := checkValid32(api+"+frozen round trip", r3); f != nil {
		return f
	}
	if !r1.Equals(b) || !r2.Equals(b) || !r3.Equals(b) {
		return fail("roundtrip", "equals", "a round trip of a library-made bitmap is not Equal to it after %s", api)
	}
	// the views alias data / fz; a frozen view does not keep its buffer alive by itself
	runtime.KeepAlive(data)
	runtime.KeepAlive(fz)
	return nil
}

func strict32(b *explore.BFS[*W32]) *explore.BFS[*W32] {
	b.Name = "V:" + b.Name
	b.Check = func(w *W32) *ev.Fail {
		if f := checkState32("history", w.B, w.M, false); f != nil {
			return f
		}
		if f := checkValid32("history", w.B); f != nil {
			return f
		}
		return roundTripValid("history", w.B)
	}
	return b
}

func runC09(c *Ctx) {
	q := c.Quick()
	f0 := strict32(bfs32("S1fix@0", s1FixOps(0), 0))
	w0 := strict32(bfs32("S1wide@1", s1WideOps(1, q), 2))
	s2 := strict32(bfs32("S2multi", s2Ops(q), 2))
	if q {
		f0.Deadline, w0.Deadline, s2.Deadline = c.Budget(40, 0), c.Budget(60, 0), c.Budget(80, 0)
	} else {
		w0.MaxDepth, s2.MaxDepth = 3, 3
		f0.Deadline, w0.Deadline, s2.Deadline = c.Budget(0, 300), c.Budget(0, 700), c.Budget(0, 1100)
	}
	scs := []explore.Scenario{f0, w0, s2}
	s3 := strict32(bfs32(fmt.Sprintf("S3keys/n%d/s%d", 17, 3), s3Ops(17, 3), 2))
	scs = append(scs, s3)
	scs = append(scs, c09Algebra(c)...)
	mspecs, mbuild, mops := marginalFamily(q)
	scs = append(scs, &explore.Product{Name: "validity of operations on pairs of marginal run chunks", Dims: []int{len(mspecs), len(mspecs), len(mops)}, Deadline: c.Budget(100, 1400),
		Run: func(idx []int) (string, *ev.Fail) {
			a, _ := mbuild(mspecs[idx[0]])
			b, _ := mbuild(mspecs[idx[1]])
			op := mops[idx[2]]
			r := op.F(a, b)
			if f := checkValid32(op.Name, r); f != nil {
				return "", f
			}
			if f := checkValid32(op.Name+" (argument)", b); f != nil {
				return "", f
			}
			return op.Name + extract.Kinds(roaring.VerifViewOf(r)), nil
		},
		Describe: func(idx []int) any {
			return map[string]any{"a": fmt.Sprintf("%+v", mspecs[idx[0]]), "b": fmt.Sprintf("%+v", mspecs[idx[1]]), "op": mops[idx[2]].Name}
		}})
	pbv := pairBFS("V:copy-on-write pair closure", q, 2, true)
	pbv.Deadline = c.Budget(118, 1700)
	scs = append(scs, pbv)
	runScenarios(c, scs...)
}
