package props

import (
	"fmt"
	"math"
	"math/big"
	"strings"
	"sync/atomic"

	"verifmc/internal/ev"
	"verifmc/internal/explore"
)

func init() { Drivers["C19"] = Driver{Level: "model_checking", Run: runC19} }

// WB is the world of the BSI properties: one index and its column -> value map.
type WB struct {
	B    bsiAPI
	M    bsiModel
	Auto bool
	Min  int64
	Max  int64
	new  func(auto bool, max, min int64) bsiAPI
}

type opB = explore.Op[*WB]

func bigOf(v int64) *big.Int { return big.NewInt(v) }

func (w *WB) inRange(v *big.Int) bool {
	if w.Auto {
		return true
	}
	return v.Cmp(bigOf(w.Min)) >= 0 && v.Cmp(bigOf(w.Max)) <= 0
}

type bsiCfg struct {
	Name string
	New  func(auto bool, max, min int64) bsiAPI
	Auto bool
	Max  int64
	Min  int64
	Cols []uint64
	Vals []int64
	Bigs []*big.Int
	Wide bool // 64-bit implementation (big values, Retain, streams)
}

func bsiConfigs(quick bool) []bsiCfg {
	two64 := new(big.Int).Lsh(big.NewInt(1), 64)
	m70 := new(big.Int).Neg(new(big.Int).Lsh(big.NewInt(1), 70))
	cols64 := []uint64{0, 1, 7, 1 << 16, 1<<32 + 1}
	cols32 := []uint64{0, 1, 7, 1 << 16}
	valsAll := []int64{0, 1, -1, 2, 3, -4, 5, 127, -128, 1 << 31, -(1 << 31), math.MaxInt64, math.MinInt64}
	valsSmall := []int64{0, 1, -1, 2, 3, -4, 5, 127, -128}
	valsPos := []int64{0, 1, 2, 3, 5, 64, 127}
	if quick {
		cols64 = []uint64{0, 7, 1<<32 + 1}
		cols32 = []uint64{0, 7, 1 << 16}
		valsAll = []int64{0, 1, -1, 3, -4, 127, -128, 1 << 31, math.MaxInt64, math.MinInt64}
		valsSmall = []int64{0, 1, -1, 3, -4, 127, -128}
		valsPos = []int64{0, 1, 3, 64, 127}
	}
	return []bsiCfg{
		{Name: "roaring64.BSI auto-sized", New: new64, Auto: true, Cols: cols64, Vals: valsAll, Bigs: []*big.Int{two64, m70}, Wide: true},
		{Name: "roaring64.BSI fixed [-128,127]", New: new64, Max: 127, Min: -128, Cols: cols64, Vals: valsSmall, Wide: true},
		{Name: "BitSliceIndexing.BSI auto-sized", New: new32, Auto: true, Cols: cols32, Vals: valsAll},
		{Name: "BitSliceIndexing.BSI fixed [0,127]", New: new32, Max: 127, Min: 0, Cols: cols32, Vals: valsPos},
		{Name: "BitSliceIndexing.BSI fixed [-128,127]", New: new32, Max: 127, Min: -128, Cols: cols32, Vals: valsSmall},
	}
}

func newWB(cfg bsiCfg) func() *WB {
	return func() *WB {
		return &WB{B: cfg.New(cfg.Auto, cfg.Max, cfg.Min), M: bsiModel{}, Auto: cfg.Auto, Min: cfg.Min, Max: cfg.Max, new: cfg.New}
	}
}

// other builds a small index of the same implementation holding the given map (disjoint columns).
func (w *WB) other(m map[uint64]int64) bsiAPI {
	o := w.new(w.Auto, w.Max, w.Min)
	for c, v := range m {
		o.SetValue(c, v)
	}
	return o
}

func opsBSI(cfg bsiCfg, quick bool) []opB {
	var ops []opB
	mk := func(name string, f func(w *WB) (string, *ev.Fail)) { ops = append(ops, opB{Name: name, F: f}) }
	for _, c := range cfg.Cols {
		for _, v := range cfg.Vals {
			c, v := c, v
			mk(fmt.Sprintf("SetValue(%d,%d)", c, v), func(w *WB) (string, *ev.Fail) {
				w.B.SetValue(c, v)
				w.M[c] = bigOf(v)
				return "", nil
			})
		}
		for _, bv := range cfg.Bigs {
			c, bv := c, bv
			mk(fmt.Sprintf("SetBigValue(%d,%s)", c, bv.String()), func(w *WB) (string, *ev.Fail) {
				w.B.SetBig(c, bv)
				w.M[c] = new(big.Int).Set(bv)
				return "", nil
			})
		}
	}
	pairs := [][]uint64{cfg.Cols[:2], cfg.Cols[1:]}
	for _, cs := range pairs {
		for _, v := range []int64{cfg.Vals[0], cfg.Vals[1], cfg.Vals[len(cfg.Vals)-1], cfg.Vals[len(cfg.Vals)/2]} {
			cs, v := cs, v
			mk(fmt.Sprintf("SetMany(%v,%d)", cs, v), func(w *WB) (string, *ev.Fail) {
				w.B.SetMany(cs, v)
				for _, c := range cs {
					w.M[c] = bigOf(v)
				}
				return "", nil
			})
		}
		cs := cs
		mk(fmt.Sprintf("ClearValues(%v)", cs), func(w *WB) (string, *ev.Fail) {
			w.B.ClearValues(cs)
			for _, c := range cs {
				delete(w.M, c)
			}
			return "", nil
		})
		if cfg.Wide {
			mk(fmt.Sprintf("Retain(%v)", cs), func(w *WB) (string, *ev.Fail) {
				want := uint64(0)
				keep := map[uint64]bool{}
				for _, c := range cs {
					keep[c] = true
				}
				for c := range w.M {
					if !keep[c] {
						want++
					}
				}
				got, _ := w.B.Retain(cs)
				for c := range w.M {
					if !keep[c] {
						delete(w.M, c)
					}
				}
				if got != want {
					return "", fail("Retain", "return", "Retain(%v) reported %d dropped columns, want %d", cs, got, want)
				}
				return fmt.Sprint(got), nil
			})
		}
	}
	mk(fmt.Sprintf("ClearValues([%d])", cfg.Cols[0]), func(w *WB) (string, *ev.Fail) {
		w.B.ClearValues(cfg.Cols[:1])
		delete(w.M, cfg.Cols[0])
		return "", nil
	})
	// ParOr with disjoint columns
	others := []struct {
		name string
		m    map[uint64]int64
	}{
		{"{100:3}", map[uint64]int64{100: 3}},
		{"{101:-3}", map[uint64]int64{101: -3}},
		{"{102:2^40}", map[uint64]int64{102: 1 << 40}},
		{"{103:0,104:127}", map[uint64]int64{103: 0, 104: 127}},
	}
	for _, par := range []int{0, 2} {
		for oi, o := range others {
			par, o := par, o
			if quick && par == 2 && oi%2 == 1 {
				continue
			}
			mk(fmt.Sprintf("ParOr(%d,%s)", par, o.name), func(w *WB) (string, *ev.Fail) {
				for c, v := range o.m {
					if !w.inRange(bigOf(v)) {
						return "skip-out-of-range", nil
					}
					if have, ok := w.M[c]; ok && have.Cmp(bigOf(v)) != 0 {
						return "skip-overlapping-columns", nil // ParOr is documented for disjoint columns (or identical values)
					}
				}
				w.B.ParOr(par, w.other(o.m))
				for c, v := range o.m {
					w.M[c] = bigOf(v)
				}
				return "", nil
			})
		}
	}
	mk("ParOr(0,{100:3},{101:-3})", func(w *WB) (string, *ev.Fail) {
		if !w.inRange(bigOf(-3)) {
			return "skip-out-of-range", nil
		}
		for c, v := range map[uint64]int64{100: 3, 101: -3} {
			if have, ok := w.M[c]; ok && have.Cmp(bigOf(v)) != 0 {
				return "skip-overlapping-columns", nil
			}
		}
		w.B.ParOr(0, w.other(others[0].m), w.other(others[1].m))
		w.M[100], w.M[101] = bigOf(3), bigOf(-3)
		return "", nil
	})
	mk("ParOr(2,{102:2^40},{100:3})", func(w *WB) (string, *ev.Fail) {
		if !w.inRange(bigOf(1 << 40)) {
			return "skip-out-of-range", nil
		}
		for c, v := range map[uint64]int64{100: 3, 102: 1 << 40} {
			if have, ok := w.M[c]; ok && have.Cmp(bigOf(v)) != 0 {
				return "skip-overlapping-columns", nil
			}
		}
		w.B.ParOr(2, w.other(others[2].m), w.other(others[0].m))
		w.M[100], w.M[102] = bigOf(3), bigOf(1<<40)
		return "", nil
	})
	// Increment / Add: only on non-negative values whose result stays in range (other columns may hold anything)
	incOK := func(w *WB, cols []uint64) bool {
		for _, c := range cols {
			if v, ok := w.M[c]; ok && v.Sign() < 0 {
				return false // incrementing a negative value is outside the property's domain; negative bystanders are not
			}
		}
		for _, c := range cols {
			v, ok := w.M[c]
			if !ok {
				return false // incrementing an absent column is outside the alphabet
			}
			if !w.inRange(new(big.Int).Add(v, bigOf(1))) || v.Cmp(bigOf(math.MaxInt64-1)) >= 0 {
				return false
			}
		}
		return true
	}
	mk("IncrementAll()", func(w *WB) (string, *ev.Fail) {
		if len(w.M) == 0 || !incOK(w, w.M.cols()) {
			return "skip", nil
		}
		w.B.Increment(nil, true)
		for c := range w.M {
			w.M[c] = new(big.Int).Add(w.M[c], bigOf(1))
		}
		return "", nil
	})
	mk(fmt.Sprintf("Increment([%d])", cfg.Cols[1]), func(w *WB) (string, *ev.Fail) {
		cs := cfg.Cols[1:2]
		if !incOK(w, cs) {
			return "skip", nil
		}
		w.B.Increment(cs, false)
		w.M[cs[0]] = new(big.Int).Add(w.M[cs[0]], bigOf(1))
		return "", nil
	})
	mk("Add({same columns: +1, first column +5})", func(w *WB) (string, *ev.Fail) {
		if len(w.M) == 0 || !w.M.allNonNegative() {
			return "skip", nil
		}
		add := map[uint64]int64{}
		for i, c := range w.M.cols() {
			add[c] = 1
			if i == 0 {
				add[c] = 5
			}
			s := new(big.Int).Add(w.M[c], bigOf(add[c]))
			if !w.inRange(s) || !s.IsInt64() || s.Cmp(bigOf(math.MaxInt64/2)) > 0 {
				return "skip", nil
			}
		}
		w.B.Add(w.other(add))
		for c, d := range add {
			w.M[c] = new(big.Int).Add(w.M[c], bigOf(d))
		}
		return "", nil
	})
	mk(fmt.Sprintf("Add({%d: +8}) (other columns untouched)", cfg.Cols[0]), func(w *WB) (string, *ev.Fail) {
		c0 := cfg.Cols[0]
		cur, ok := w.M[c0]
		if !ok {
			cur = bigOf(0)
		}
		sum := new(big.Int).Add(cur, bigOf(8))
		if cur.Sign() < 0 || !w.inRange(sum) || !sum.IsInt64() || sum.Cmp(bigOf(math.MaxInt64/2)) > 0 {
			return "skip", nil
		}
		w.B.Add(w.other(map[uint64]int64{c0: 8}))
		w.M[c0] = sum
		return "", nil
	})
	mk("ClearValues(own existence bitmap)", func(w *WB) (string, *ev.Fail) {
		w.B.ClearOwn()
		for c := range w.M {
			delete(w.M, c)
		}
		return "", nil
	})
	mk("RunOptimize()", func(w *WB) (string, *ev.Fail) { w.B.RunOptimize(); return "", nil })
	copyOp := func(name string, f func(w *WB) (bsiAPI, *ev.Fail)) {
		mk(name, func(w *WB) (string, *ev.Fail) {
			n, fl := f(w)
			if fl != nil {
				return "", fl
			}
			if n == nil {
				return "unsupported", nil
			}
			if !n.Equals(w.B) || !w.B.Equals(n) {
				return "", fail(name, "not-equal", "%s yields an index that is not Equal to the original (map %s)", name, w.M.key())
			}
			w.B = n
			return "", nil
		})
	}
	copyOp("b = b.Clone()", func(w *WB) (bsiAPI, *ev.Fail) { return w.B.Clone(), nil })
	copyOp("b = b.NewBSIRetainSet(all columns)", func(w *WB) (bsiAPI, *ev.Fail) { return w.B.RetainSetNew(append(w.M.cols(), 999)), nil })
	copyOp("b = Unmarshal(Marshal(b))", func(w *WB) (bsiAPI, *ev.Fail) {
		n, err := w.B.MarshalRoundTrip()
		if err != nil {
			return nil, fail("MarshalBinary", "error", "Marshal/UnmarshalBinary failed: %v", err)
		}
		return n, nil
	})
	for kind, kname := range []string{"", "a fresh full-range index", "a used default index", "a used full-range index whose columns hold wider values"} {
		kind, kname := kind, kname
		if kind == 0 {
			continue
		}
		// (checked and discarded: the receiver has its own range, the world keeps the index it was configured with)
		checkOp := func(name string, f func(w *WB) (bsiAPI, *ev.Fail)) {
			mk(name, func(w *WB) (string, *ev.Fail) {
				n, fl := f(w)
				if fl != nil {
					return "", fl
				}
				if n == nil {
					return "unsupported", nil
				}
				if !n.Equals(w.B) || !w.B.Equals(n) {
					return "", fail(name, "not-equal", "%s yields an index that is not Equal to the original (map %s)", name, w.M.key())
				}
				keep := w.B
				w.B = n
				var e int64
				f2 := checkBSI(cfg, w, 1, &e)
				w.B = keep
				if f2 != nil {
					f2.What = name + ": " + f2.What
				}
				return "", f2
			})
		}
		checkOp("("+kname+").Unmarshal(Marshal(b))", func(w *WB) (bsiAPI, *ev.Fail) {
			for _, v := range w.M {
				if !v.IsInt64() {
					return nil, nil // the receivers are created for the int64 range
				}
			}
			n, err := w.B.MarshalInto(kind)
			if err != nil {
				return nil, fail("UnmarshalBinary", "error", "Marshal/UnmarshalBinary into %s failed: %v", kname, err)
			}
			// the receiver was created for the whole int64 range (kind 1) or is auto-sized (kind 2): values of that
			// range must still be storable after the decode
			for _, v := range []int64{1 << 40, -(1 << 40)} {
				n.SetValue(987654, v)
				if g, ok := n.GetValue(987654); !ok || g != v {
					return nil, fail("UnmarshalBinary", "receiver-lost-width", "after decoding into %s, SetValue(987654,%d) reads back (%d,%v): the receiver lost the width it was created for (map %s)", kname, v, g, ok, w.M.key())
				}
			}
			n.ClearValues([]uint64{987654})
			return n, nil
		})
	}
	if cfg.Wide {
		copyOp("b = ReadFrom(WriteTo(b))", func(w *WB) (bsiAPI, *ev.Fail) {
			n, wn, rn, err, ok := w.B.StreamRoundTrip()
			if !ok {
				return nil, nil
			}
			if err != nil {
				return nil, fail("WriteTo", "error", "WriteTo/ReadFrom failed: %v (wrote %d, read %d)", err, wn, rn)
			}
			if wn != rn {
				return nil, fail("ReadFrom", "accounting", "WriteTo wrote %d bytes, ReadFrom consumed %d", wn, rn)
			}
			return n, nil
		})
	}
	mk(fmt.Sprintf("b = b.NewBSIRetainSet([%d,%d])", cfg.Cols[0], cfg.Cols[len(cfg.Cols)-1]), func(w *WB) (string, *ev.Fail) {
		keep := []uint64{cfg.Cols[0], cfg.Cols[len(cfg.Cols)-1]}
		w.B = w.B.RetainSetNew(keep)
		for c := range w.M {
			if c != keep[0] && c != keep[1] {
				delete(w.M, c)
			}
		}
		return "", nil
	})
	return ops
}

// checkBSI is property C19's per-state oracle.
func checkBSI(cfg bsiCfg, w *WB, listLen int, evals *int64) *ev.Fail {
	universe := append(append([]uint64{}, cfg.Cols...), 9, 100, 101, 102, 103, 104)
	n := int64(0)
	for _, c := range universe {
		want, in := w.M[c]
		if g := w.B.ValueExists(c); g != in {
			return fail("ValueExists", "value", "ValueExists(%d)=%v, map holds it: %v [map %s]", c, g, in, w.M.key())
		}
		if !in || want.IsInt64() {
			g, ok := w.B.GetValue(c)
			if ok != in || (in && g != want.Int64()) {
				return fail("GetValue", "value", "GetValue(%d)=(%d,%v) want (%v,%v) [map %s, %d planes]", c, g, ok, want, in, w.M.key(), w.B.Planes())
			}
		}
		if g, ok, sup := w.B.GetBig(c); sup {
			if ok != in || (in && g.Cmp(want) != 0) {
				return fail("GetBigValue", "value", "GetBigValue(%d)=(%v,%v) want (%v,%v) [map %s]", c, g, ok, want, in, w.M.key())
			}
		}
		n += 3
	}
	if g := w.B.Card(); g != uint64(len(w.M)) {
		return fail("GetCardinality", "value", "GetCardinality()=%d want %d [map %s]", g, len(w.M), w.M.key())
	}
	if s := w.B.PlaneLeak(); s != "" {
		return fail("planes", "leak", "%s [map %s]", s, w.M.key())
	}
	// Equals is what the property uses to relate an index to its copies, so it has to tell maps apart whatever the
	// histories (and hence widths) of the two indexes: a fresh index built from the same map is Equal, one built from
	// the map with a single value changed is not
	if len(w.M) > 0 && len(w.M) <= 4 {
		build := func(m bsiModel) bsiAPI {
			o := w.new(w.Auto, w.Max, w.Min)
			for _, c := range m.cols() {
				if v := m[c]; v.IsInt64() {
					o.SetValue(c, v.Int64())
				} else if !o.SetBig(c, v) {
					return nil
				}
			}
			return o
		}
		if same := build(w.M); same != nil {
			if !same.Equals(w.B) || !w.B.Equals(same) {
				return fail("Equals", "same-map-not-equal", "an index built afresh from the same map is not Equal to this one [map %s, %d planes vs %d]", w.M.key(), w.B.Planes(), same.Planes())
			}
			c0 := w.M.cols()[0]
			for _, alt := range []int64{-1, 0, 3} {
				if av := bigOf(alt); w.M[c0].Cmp(av) != 0 && w.inRange(av) {
					other := w.M.clone()
					other[c0] = av
					if o := build(other); o != nil && (o.Equals(w.B) || w.B.Equals(o)) {
						return fail("Equals", "different-map-equal", "an index holding %s is Equal to this one [map %s]", other.key(), w.M.key())
					}
				}
			}
			n += 4
		}
	}
	// column lists with duplicates and absent columns
	lcols := append(append([]uint64{}, cfg.Cols...), 9)
	allInt64 := true
	for _, v := range w.M {
		if !v.IsInt64() {
			allInt64 = false
		}
	}
	var rec func(cur []uint64) *ev.Fail
	rec = func(cur []uint64) *ev.Fail {
		if len(cur) > 0 {
			if vs, ok := w.B.GetBigValues(cur); ok {
				if len(vs) != len(cur) {
					return fail("GetBigValues", "len", "GetBigValues(%v) returned %d entries", cur, len(vs))
				}
				for i, c := range cur {
					want, in := w.M[c]
					if (vs[i] != nil) != in || (in && vs[i].Cmp(want) != 0) {
						return fail("GetBigValues", "value", "GetBigValues(%v)[%d]=%v want %v (exists %v) [map %s]", cur, i, vs[i], want, in, w.M.key())
					}
				}
				n++
			}
			if allInt64 {
				if vs, es, ok := w.B.GetValues(cur); ok {
					for i, c := range cur {
						want, in := w.M[c]
						if es[i] != in || (in && vs[i] != want.Int64()) {
							return fail("GetValues", "value", "GetValues(%v)[%d]=(%d,%v) want (%v,%v) [map %s]", cur, i, vs[i], es[i], want, in, w.M.key())
						}
					}
					n++
				}
			}
		}
		if len(cur) == listLen {
			return nil
		}
		for _, c := range lcols {
			if f := rec(append(cur, c)); f != nil {
				return f
			}
		}
		return nil
	}
	if f := rec(nil); f != nil {
		return f
	}
	atomic.AddInt64(evals, n)
	return nil
}

func keyBSI(w *WB) string {
	return fmt.Sprintf("%s|p%d|%v", w.M.key(), w.B.Planes(), w.B.RunOptimized())
}

func runC19(c *Ctx) {
	q := c.Quick()
	var evals int64
	var scs []explore.Scenario
	for i, cfg := range bsiConfigs(q) {
		cfg := cfg
		depth, ll := 3, 3
		if q {
			ll = 2 // quick: depth 2 is always completed; depth 3 is expanded until the per-configuration budget ends
		}
		b := &explore.BFS[*WB]{Name: cfg.Name, New: newWB(cfg), Ops: opsBSI(cfg, q), MaxDepth: depth, Key: keyBSI,
			Check: func(w *WB) *ev.Fail { return checkBSI(cfg, w, ll, &evals) }}
		b.Deadline = c.Budget(8*(i+1), 340*(i+1))
		scs = append(scs, b)
	}
	// tiny alphabets without the value-growing operations: the closure is finite, all histories of any length
	for i, cfg := range bsiConfigs(true)[:3] {
		cfg := cfg
		cfg.Name += " (2 columns x 3 values, fixpoint)"
		cfg.Cols = cfg.Cols[:2]
		cfg.Vals = []int64{cfg.Vals[0], cfg.Vals[2], cfg.Vals[len(cfg.Vals)-3]}
		cfg.Bigs = nil
		var ops []opB
		for _, o := range opsBSI(cfg, true) {
			if strings.HasPrefix(o.Name, "Increment") || strings.HasPrefix(o.Name, "Add(") || strings.Contains(o.Name, "2^40") || strings.Contains(o.Name, "103:0") {
				continue
			}
			ops = append(ops, o)
		}
		b := &explore.BFS[*WB]{Name: cfg.Name, New: newWB(cfg), Ops: ops, Key: keyBSI,
			Check: func(w *WB) *ev.Fail { return checkBSI(cfg, w, 2, &evals) }}
		b.Deadline = c.Budget(60+10*i, 1700+30*i)
		scs = append(scs, b)
	}
	c.R.Assume("values stay within the range the index was created or auto-sized for; Increment/Add are applied only to non-negative values (the property's stated domain); columns they do not touch may hold negative values")
	if c.Replay != nil && c.Replay.Scenario == "aliased arguments" {
		replayCaged(c, "C19alias")
		return
	}
	runScenarios(c, scs...)
	if c.Replay == nil {
		runCagedFamily(c, "C19alias", "aliased arguments", "aliased arguments: the index itself as addend, its own existence bitmap as found set (subprocess cage, 20 s silence watchdog)")
	}
	c.R.SetExtra("accessor_evaluations", atomic.LoadInt64(&evals))
}
