package props

import (
	"fmt"
	"sort"
	"sync/atomic"

	"github.com/RoaringBitmap/roaring/v2"
	"github.com/RoaringBitmap/roaring/v2/roaring64"
	"verifmc/internal/ev"
	"verifmc/internal/explore"
	"verifmc/internal/extract"
	"verifmc/internal/model"
)

func init() { Drivers["C17"] = Driver{Level: "model_checking", Run: runC17} }

type W64 struct {
	B *roaring64.Bitmap
	M *model.Set64
}

func newW64() *W64 { return &W64{B: roaring64.New(), M: model.New64()} }

type op64 = explore.Op[*W64]

func mk64(name string, f func(w *W64) (string, *ev.Fail)) op64 { return op64{Name: name, F: f} }

const top64 = uint64(0xFFFFFFFF) << 32

func diff64(got, want *model.Set64) string {
	show := func(s *model.Set64) string {
		str := ""
		for i, iv := range s.Iv {
			if i >= 6 {
				str += fmt.Sprintf(" ...(%d intervals)", len(s.Iv))
				break
			}
			str += fmt.Sprintf("[%#x,%#x]", iv[0], iv[1])
		}
		return "{" + str + "}"
	}
	return fmt.Sprintf("got %s want %s", show(got), show(want))
}

func ops64Points(pts []uint64, full bool) []op64 {
	var ops []op64
	for _, x := range pts {
		x := x
		ops = append(ops,
			mk64(fmt.Sprintf("Add(%#x)", x), func(w *W64) (string, *ev.Fail) { w.B.Add(x); w.M.Add(x); return "", nil }),
			mk64(fmt.Sprintf("CheckedRemove(%#x)", x), func(w *W64) (string, *ev.Fail) {
				g, want := w.B.CheckedRemove(x), w.M.Remove(x)
				if g != want {
					return "", fail("CheckedRemove", "return", "CheckedRemove(%#x) returned %v, membership changed: %v", x, g, want)
				}
				return fmt.Sprint(g), nil
			}))
		if full {
			ops = append(ops,
				mk64(fmt.Sprintf("CheckedAdd(%#x)", x), func(w *W64) (string, *ev.Fail) {
					g, want := w.B.CheckedAdd(x), w.M.Add(x)
					if g != want {
						return "", fail("CheckedAdd", "return", "CheckedAdd(%#x) returned %v, membership changed: %v", x, g, want)
					}
					return fmt.Sprint(g), nil
				}),
				mk64(fmt.Sprintf("Remove(%#x)", x), func(w *W64) (string, *ev.Fail) { w.B.Remove(x); w.M.Remove(x); return "", nil }))
		}
	}
	return ops
}

func ops64Ranges(rs [][2]uint64) []op64 {
	var ops []op64
	for _, r := range rs {
		a, b := r[0], r[1]
		ops = append(ops,
			mk64(fmt.Sprintf("AddRange(%#x,%#x)", a, b), func(w *W64) (string, *ev.Fail) { w.B.AddRange(a, b); w.M.AddRange(a, b); return "", nil }),
			mk64(fmt.Sprintf("RemoveRange(%#x,%#x)", a, b), func(w *W64) (string, *ev.Fail) { w.B.RemoveRange(a, b); w.M.RemoveRange(a, b); return "", nil }),
			mk64(fmt.Sprintf("Flip(%#x,%#x)", a, b), func(w *W64) (string, *ev.Fail) { w.B.Flip(a, b); w.M.FlipRange(a, b); return "", nil }))
	}
	return ops
}

func ops64Maintenance() []op64 {
	return []op64{
		mk64("Clear()", func(w *W64) (string, *ev.Fail) { w.B.Clear(); w.M = model.New64(); return "", nil }),
		mk64("RunOptimize()", func(w *W64) (string, *ev.Fail) { w.B.RunOptimize(); return "", nil }),
		mk64("Clone()", func(w *W64) (string, *ev.Fail) { w.B = w.B.Clone(); return "", nil }),
		mk64("CloneCopyOnWriteContainers()", func(w *W64) (string, *ev.Fail) { w.B.CloneCopyOnWriteContainers(); return "", nil }),
		mk64("SetCopyOnWrite(true)", func(w *W64) (string, *ev.Fail) { w.B.SetCopyOnWrite(true); return "", nil }),
		mk64("SetCopyOnWrite(false)", func(w *W64) (string, *ev.Fail) { w.B.SetCopyOnWrite(false); return "", nil }),
	}
}

// pairsWithin lists [a,b) for all a<b of pts whose span stays within maxBuckets buckets.
func pairsWithin(pts []uint64, maxBuckets uint64) [][2]uint64 {
	var out [][2]uint64
	for i, a := range pts {
		for _, b := range pts[i+1:] {
			if (b-1)>>32-a>>32 < maxBuckets {
				out = append(out, [2]uint64{a, b})
			}
		}
	}
	return out
}

func s64Ops(quick bool) []op64 {
	pts := []uint64{0, 1, 65535, 65536, 1<<32 - 1, 1 << 32, 1<<32 + 1, 1<<33 - 1, 1 << 33, top64, top64 + 65535, ^uint64(0)}
	low := []uint64{0, 1, 1<<32 - 2, 1 << 32, 1<<32 + 2, 1 << 33, 1<<33 + 65536}
	top := []uint64{top64 - 2, top64, top64 + 5, ^uint64(0) - 65535, ^uint64(0)}
	if quick {
		pts = []uint64{0, 65536, 1<<32 - 1, 1 << 32, 1 << 33, top64, ^uint64(0)}
		low = []uint64{0, 1<<32 - 2, 1 << 32, 1<<32 + 2, 1 << 33}
		top = []uint64{top64 - 2, top64 + 5, ^uint64(0)}
	}
	ops := ops64Points(pts, !quick)
	ops = append(ops, mk64("AddMany(interleaved buckets)", func(w *W64) (string, *ev.Fail) {
		vs := []uint64{5, 1<<32 + 5, 6, 1<<32 + 6, top64 + 1, 7, 1<<33 + 9}
		cp := append([]uint64(nil), vs...)
		w.B.AddMany(cp)
		for i, v := range vs {
			if cp[i] != v {
				return "", fail("AddMany", "argmodified", "AddMany modified its argument")
			}
			w.M.Add(v)
		}
		return "", nil
	}))
	ops = append(ops, mk64("AddInt(7<<32)", func(w *W64) (string, *ev.Fail) { w.B.AddInt(7 << 32); w.M.Add(7 << 32); return "", nil }))
	ops = append(ops, ops64Ranges(pairsWithin(low, 3))...)
	ops = append(ops, ops64Ranges(pairsWithin(top, 3))...)
	// removals may span any number of buckets
	for _, r := range [][2]uint64{{1, ^uint64(0)}, {1 << 32, top64}, {0, 1 << 33}, {1<<32 + 1, top64 + 3}} {
		a, b := r[0], r[1]
		ops = append(ops, mk64(fmt.Sprintf("RemoveRange(%#x,%#x)", a, b), func(w *W64) (string, *ev.Fail) { w.B.RemoveRange(a, b); w.M.RemoveRange(a, b); return "", nil }))
	}
	ops = append(ops, ops64Maintenance()...)
	return ops
}

// fix64Ops: a small alphabet (few cells) whose closure is finite.
func fix64Ops() []op64 {
	ops := ops64Points([]uint64{1<<32 - 1, 1 << 32, ^uint64(0)}, true)
	ops = append(ops, ops64Ranges([][2]uint64{{1<<32 - 2, 1<<32 + 2}, {1<<32 - 70000, 1 << 32}, {1 << 32, 1<<32 + 70000}, {^uint64(0) - 70000, ^uint64(0)}})...)
	ops = append(ops, ops64Maintenance()...)
	return ops
}

func checkState64(api string, b *roaring64.Bitmap, m *model.Set64) *ev.Fail {
	got := extract.Of64(b)
	if !got.Equal(m) {
		return fail(api, "content", "content differs from model after %s: %s [repr %s]", api, diff64(got, m), trunc(extract.Sig64(b), 200))
	}
	if c := b.GetCardinality(); c != m.Card() {
		return fail(api, "cardinality", "GetCardinality()=%d model %d after %s", c, m.Card(), api)
	}
	if b.IsEmpty() != m.IsEmpty() {
		return fail(api, "isempty", "IsEmpty()=%v after %s", b.IsEmpty(), api)
	}
	return nil
}

func trunc(s string, n int) string {
	if len(s) > n {
		return s[:n] + "..."
	}
	return s
}

func key64(w *W64) string { return fmt.Sprintf("%016x#%s", w.M.Hash(), extract.Sig64(w.B)) }

func bfs64(name string, ops []op64, depth int, check func(w *W64) *ev.Fail) *explore.BFS[*W64] {
	return &explore.BFS[*W64]{Name: name, New: newW64, Ops: ops, MaxDepth: depth, Key: key64, Check: check}
}

// args64: query arguments for a state.
func args64(m *model.Set64) []uint64 {
	set := map[uint64]struct{}{0: {}, 1: {}, 1<<32 - 1: {}, 1 << 32: {}, top64: {}, ^uint64(0): {}, ^uint64(0) - 1: {}}
	for i, iv := range m.Iv {
		if i > 12 && i < len(m.Iv)-12 {
			continue
		}
		for _, x := range []uint64{iv[0] - 1, iv[0], iv[0] + 1, iv[1] - 1, iv[1], iv[1] + 1} {
			set[x] = struct{}{}
		}
		set[iv[0]>>32<<32] = struct{}{}
		set[(iv[0]>>32+1)<<32] = struct{}{}
	}
	out := make([]uint64, 0, len(set))
	for x := range set {
		out = append(out, x)
	}
	sort.Slice(out, func(i, j int) bool { return out[i] < out[j] })
	return out
}

const drainCap = 3000

// battery64: queries and iteration protocols on one state.
func battery64(b *roaring64.Bitmap, m *model.Set64) (int, *ev.Fail) {
	n := 0
	card := m.Card()
	before := extract.Sig64(b)
	if g := b.GetCardinality(); g != card {
		return n, fail("GetCardinality", "value", "GetCardinality()=%d want %d", g, card)
	}
	if mn, ok := m.Min(); ok {
		mx, _ := m.Max()
		if g := b.Minimum(); g != mn {
			return n, fail("Minimum", "value", "Minimum()=%#x want %#x", g, mn)
		}
		if g := b.Maximum(); g != mx {
			return n, fail("Maximum", "value", "Maximum()=%#x want %#x", g, mx)
		}
	}
	args := args64(m)
	for _, x := range args {
		if g, w := b.Contains(x), m.Contains(x); g != w {
			return n, fail("Contains", "value", "Contains(%#x)=%v want %v", x, g, w)
		}
		if x <= 1<<62 {
			if g, w := b.ContainsInt(int(x)), m.Contains(x); g != w {
				return n, fail("ContainsInt", "value", "ContainsInt(%#x)=%v want %v", x, g, w)
			}
		}
		if g, w := b.Rank(x), m.Rank(x); g != w {
			return n, fail("Rank", "value", "Rank(%#x)=%d want %d", x, g, w)
		}
		n += 3
	}
	sel := []uint64{0, 1, 2, card - 1, card, card + 1, card / 2, 1 << 32, 1<<32 - 1, ^uint64(0)}
	for _, iv := range m.Iv {
		r := m.Rank(iv[0])
		sel = append(sel, r-1, r)
	}
	for _, i := range sel {
		g, err := b.Select(i)
		w, ok := m.Select(i)
		if ok != (err == nil) || (ok && g != w) {
			return n, fail("Select", "value", "Select(%d)=(%#x,%v) want (%#x, exists=%v)", i, g, err, w, ok)
		}
		n++
	}
	// iteration, bounded drains
	first := m.First(drainCap)
	it := b.Iterator()
	for i, w := range first {
		if !it.HasNext() {
			return n, fail("Iterator", "short", "Iterator ended after %d values", i)
		}
		p := it.PeekNext()
		g := it.Next()
		if g != w || p != w {
			return n, fail("Iterator", "value", "Iterator value %d is %#x (peek %#x) want %#x", i, g, p, w)
		}
	}
	if uint64(len(first)) == card && it.HasNext() {
		return n, fail("Iterator", "long", "Iterator continues after all %d values", card)
	}
	last := m.Last(drainCap)
	rit := b.ReverseIterator()
	for i, w := range last {
		if !rit.HasNext() {
			return n, fail("ReverseIterator", "short", "ReverseIterator ended after %d values", i)
		}
		if g := rit.Next(); g != w {
			return n, fail("ReverseIterator", "value", "ReverseIterator value %d is %#x want %#x", i, g, w)
		}
	}
	if uint64(len(last)) == card && rit.HasNext() {
		return n, fail("ReverseIterator", "long", "ReverseIterator continues after all values")
	}
	i := 0
	for v := range roaring64.Values(b) {
		if i >= len(first) {
			break
		}
		if v != first[i] {
			return n, fail("Values", "value", "Values value %d is %#x want %#x", i, v, first[i])
		}
		i++
	}
	if i != len(first) {
		return n, fail("Values", "short", "Values yielded %d values, want at least %d", i, len(first))
	}
	i = 0
	for v := range roaring64.Backward(b) {
		if i >= len(last) {
			break
		}
		if v != last[i] {
			return n, fail("Backward", "value", "Backward value %d is %#x want %#x", i, v, last[i])
		}
		i++
	}
	if i != len(last) {
		return n, fail("Backward", "short", "Backward yielded %d values, want at least %d", i, len(last))
	}
	n += 4
	// NextMany with several buffer sizes
	for _, sz := range []int{0, 1, 2, 3, 7, 64, 1000} {
		mi := b.ManyIterator()
		pos := 0
		for rounds := 0; pos < len(first) && rounds < drainCap+5; rounds++ {
			buf := make([]uint64, sz)
			g := mi.NextMany(buf)
			if sz == 0 {
				if g != 0 {
					return n, fail("ManyIterator.NextMany", "chunk", "NextMany(empty buffer) returned %d", g)
				}
				break
			}
			want := sz
			if rem := card - uint64(pos); rem < uint64(sz) {
				want = int(rem)
			}
			if g != want {
				return n, fail("ManyIterator.NextMany", "chunk", "NextMany(buffer %d) at position %d returned %d want %d", sz, pos, g, want)
			}
			for j := 0; j < g && pos+j < len(first); j++ {
				if buf[j] != first[pos+j] {
					return n, fail("ManyIterator.NextMany", "value", "NextMany(buffer %d): value at position %d is %#x want %#x", sz, pos+j, buf[j], first[pos+j])
				}
			}
			pos += g
			if g == 0 {
				break
			}
		}
		n++
	}
	// AdvanceIfNeeded from a fresh iterator and after some Next calls
	for _, x := range args {
		for _, pre := range []int{0, 1, 3} {
			it := b.Iterator()
			cur := uint64(0)
			okPre := true
			for k := 0; k < pre; k++ {
				if !it.HasNext() {
					okPre = false
					break
				}
				cur = it.Next() + 1
				if cur == 0 {
					okPre = false
				}
			}
			if !okPre {
				continue
			}
			it.AdvanceIfNeeded(x)
			from := x
			if cur > from {
				from = cur // never moves backwards
			}
			want := m.From(from, 2)
			for j, w := range want {
				if !it.HasNext() {
					return n, fail("Iterator.AdvanceIfNeeded", "short", "after %d Next and AdvanceIfNeeded(%#x) the iterator ended, want %#x", pre, x, w)
				}
				if j == 0 {
					if p := it.PeekNext(); p != w {
						return n, fail("Iterator.AdvanceIfNeeded", "peek", "after %d Next and AdvanceIfNeeded(%#x) PeekNext()=%#x want %#x", pre, x, p, w)
					}
				}
				if g := it.Next(); g != w {
					return n, fail("Iterator.AdvanceIfNeeded", "value", "after %d Next and AdvanceIfNeeded(%#x) Next()=%#x want %#x", pre, x, g, w)
				}
			}
			if len(want) == 0 && it.HasNext() {
				return n, fail("Iterator.AdvanceIfNeeded", "long", "after AdvanceIfNeeded(%#x) past the last element HasNext() is true", x)
			}
			n++
		}
	}
	if card <= 20000 {
		arr := b.ToArray()
		if uint64(len(arr)) != card {
			return n, fail("ToArray", "len", "ToArray has %d values want %d", len(arr), card)
		}
		for i, w := range m.First(len(arr)) {
			if arr[i] != w {
				return n, fail("ToArray", "value", "ToArray[%d]=%#x want %#x", i, arr[i], w)
			}
		}
		n++
	}
	if after := extract.Sig64(b); after != before {
		return n, fail("queries", "modified-representation", "read-only queries changed the representation")
	}
	if got := extract.Of64(b); !got.Equal(m) {
		return n, fail("queries", "modified-content", "read-only queries changed the content")
	}
	return n, nil
}

// recipes64 builds operand shapes for the pair layer.
type recipe64 struct {
	Name  string
	Build func() *W64
}

// pool64Named picks pool members by name (a missing name is a harness error, loudly).
func pool64Named(quick bool, names ...string) []recipe64 {
	all := pool64(quick)
	var out []recipe64
	for _, n := range names {
		found := false
		for _, r := range all {
			if r.Name == n {
				out, found = append(out, r), true
				break
			}
		}
		if !found {
			panic("pool64Named: no pool member named " + n)
		}
	}
	return out
}

func pool64(quick bool) []recipe64 {
	mk := func(name string, f func(w *W64)) recipe64 {
		return recipe64{Name: name, Build: func() *W64 { w := newW64(); f(w); return w }}
	}
	add := func(w *W64, vs ...uint64) {
		w.B.AddMany(vs)
		for _, v := range vs {
			w.M.Add(v)
		}
	}
	rng := func(w *W64, a, b uint64) { w.B.AddRange(a, b); w.M.AddRange(a, b) }
	rs := []recipe64{
		mk("{}", func(w *W64) {}),
		mk("{0}", func(w *W64) { add(w, 0) }),
		mk("{2^64-1}", func(w *W64) { add(w, ^uint64(0)) }),
		mk("{bucket0: few, bucket1: few}", func(w *W64) { add(w, 1, 65536, 1<<32+1, 1<<32+65536) }),
		mk("{range across 2^32}", func(w *W64) { rng(w, 1<<32-1000, 1<<32+1000) }),
		mk("{bucket1 big run, bucket2 stripe}", func(w *W64) {
			rng(w, 1<<32+20000, 1<<32+90000)
			vs := make([]uint64, 5000)
			for i := range vs {
				vs[i] = 2<<32 + 2*uint64(i)
			}
			add(w, vs...)
		}),
		mk("{bucket 0xFFFFFFFF: range to the top}", func(w *W64) { rng(w, top64+5, ^uint64(0)); add(w, ^uint64(0)) }),
		mk("{buckets 0,2,0xFFFFFFFF}", func(w *W64) { add(w, 7, 2<<32+7, top64+7) }),
		mk("{bucket 1 only, bitmap chunk}", func(w *W64) {
			vs := make([]uint64, 4097)
			for i := range vs {
				vs[i] = 1<<32 + 3*uint64(i)
			}
			add(w, vs...)
		}),
		mk("{full inner chunk at bucket 2}", func(w *W64) { rng(w, 2<<32, 2<<32+65536) }),
		mk("{buckets 0..3 one value each}", func(w *W64) { add(w, 9, 1<<32+9, 2<<32+9, 3<<32+9) }),
		// (entries added later stay at the end: a few scenarios pick pool members by position)
		mk("Roaring32AsRoaring64({})", func(w *W64) { w.B = roaring64.Roaring32AsRoaring64(roaring.New()) }),
		mk("Roaring32AsRoaring64({1, 70000})", func(w *W64) {
			w.B = roaring64.Roaring32AsRoaring64(roaring.BitmapOf(1, 70000))
			w.M.Add(1)
			w.M.Add(70000)
		}),
		mk("{run chunks with several runs in buckets 0 and 1}", func(w *W64) {
			// a batch boundary of the many-iterator then falls inside a run that is not the chunk's last
			for _, bk := range []uint64{0, 1 << 32} {
				rng(w, bk+0, bk+10)
				rng(w, bk+20, bk+30)
				rng(w, bk+40, bk+43)
				rng(w, bk+65530, bk+65536+5)
			}
		}),
		// buckets identical to a bucket of another member ({buckets 0,2,0xFFFFFFFF}, {buckets 0..3 one value each}):
		// Xor / AndNot then empty a whole bucket while the other operand still has later buckets
		mk("{7}", func(w *W64) { add(w, 7) }),
		// an inner 32-bit bitmap at the offset-header threshold of the portable format: exactly 4 chunks, one a run chunk
		mk("{bucket 1: run chunk + 3 array chunks, bucket 2: one value}", func(w *W64) {
			rng(w, 1<<32+10, 1<<32+5000)
			add(w, 1<<32+65536+1, 1<<32+2*65536+1, 1<<32+3*65536+1, 2<<32+5)
		}),
		mk("{buckets 2,3: 2^33+7, 3*2^32+9}", func(w *W64) { add(w, 2<<32+7, 3<<32+9) }),
	}
	cow := func(r recipe64) recipe64 {
		return recipe64{Name: r.Name + "+cow", Build: func() *W64 {
			w := r.Build()
			w.B.SetCopyOnWrite(true)
			keep := w.B.Clone()
			_ = keep
			return w
		}}
	}
	opt := func(r recipe64) recipe64 {
		return recipe64{Name: r.Name + "+opt", Build: func() *W64 { w := r.Build(); w.B.RunOptimize(); return w }}
	}
	n := len(rs)
	for i := 0; i < n; i++ {
		if i%2 == 1 || !quick {
			rs = append(rs, cow(rs[i]))
		}
		if i%3 == 2 || !quick {
			rs = append(rs, opt(rs[i]))
		}
	}
	return rs
}

type bin64 struct {
	Name    string
	Static  func(a, b *roaring64.Bitmap) *roaring64.Bitmap
	InPlace func(a, b *roaring64.Bitmap)
	Model   func(a, b *model.Set64) *model.Set64
}

var binOps64 = []bin64{
	{"And", roaring64.And, func(a, b *roaring64.Bitmap) { a.And(b) }, model.And64},
	{"Or", roaring64.Or, func(a, b *roaring64.Bitmap) { a.Or(b) }, model.Or64},
	{"Xor", roaring64.Xor, func(a, b *roaring64.Bitmap) { a.Xor(b) }, model.Xor64},
	{"AndNot", roaring64.AndNot, func(a, b *roaring64.Bitmap) { a.AndNot(b) }, model.AndNot64},
}

func pairCall64(ra, rb recipe64, ci int, self bool) (string, *ev.Fail) {
	a := ra.Build()
	b := a
	if !self {
		b = rb.Build()
	}
	am, bm := a.M.Clone(), b.M.Clone()
	unchanged := func(name string) *ev.Fail {
		if got := extract.Of64(b.B); !got.Equal(bm) {
			return fail(name, "operand-modified:b", "%s modified operand b: %s", name, diff64(got, bm))
		}
		return nil
	}
	switch {
	case ci < 4:
		op := binOps64[ci]
		name := op.Name + "(a,b)"
		r := op.Static(a.B, b.B)
		want := op.Model(am, bm)
		if got := extract.Of64(r); !got.Equal(want) {
			return "", fail(name, "result", "%s wrong: %s", name, diff64(got, want))
		}
		if s := extract.Invariants64(r); s != "" {
			return "", fail(name, "invariant", "%s result malformed: %s", name, s)
		}
		if got := extract.Of64(a.B); !got.Equal(am) {
			return "", fail(name, "operand-modified:a", "%s modified operand a: %s", name, diff64(got, am))
		}
		return name, unchanged(name)
	case ci < 8:
		op := binOps64[ci-4]
		name := "a." + op.Name + "(b)"
		op.InPlace(a.B, b.B)
		want := op.Model(am, bm)
		if got := extract.Of64(a.B); !got.Equal(want) {
			return "", fail(name, "result", "%s wrong: %s", name, diff64(got, want))
		}
		if s := extract.Invariants64(a.B); s != "" {
			return "", fail(name, "invariant", "%s receiver malformed: %s", name, s)
		}
		if self {
			return name, nil
		}
		return name, unchanged(name)
	case ci == 8:
		if g, w := a.B.AndCardinality(b.B), model.And64(am, bm).Card(); g != w {
			return "", fail("AndCardinality", "value", "AndCardinality=%d want %d", g, w)
		}
	case ci == 9:
		if g, w := a.B.OrCardinality(b.B), model.Or64(am, bm).Card(); g != w {
			return "", fail("OrCardinality", "value", "OrCardinality=%d want %d", g, w)
		}
	case ci == 10:
		if g, w := a.B.Intersects(b.B), !model.And64(am, bm).IsEmpty(); g != w {
			return "", fail("Intersects", "value", "Intersects=%v want %v", g, w)
		}
	default:
		if g, w := a.B.Equals(b.B), am.Equal(bm); g != w {
			return "", fail("Equals", "value", "Equals=%v want %v", g, w)
		}
	}
	return fmt.Sprint(ci), unchanged("query")
}

func runC17(c *Ctx) {
	q := c.Quick()
	var evals int64
	stateCheck := func(w *W64) *ev.Fail { return checkState64("history", w.B, w.M) }
	fix := bfs64("S64fix", fix64Ops(), 0, stateCheck)
	wide := bfs64("S64wide", s64Ops(q), 2, stateCheck)
	if q {
		fix.MaxDepth = 4
		fix.Deadline, wide.Deadline = c.Budget(25, 0), c.Budget(50, 0)
	} else {
		wide.MaxDepth = 3
		fix.Deadline, wide.Deadline = c.Budget(0, 500), c.Budget(0, 1100)
	}
	// the per-state battery on every state reached by a closure of moderate depth
	bat := bfs64("S64wide x query/iterator battery", s64Ops(true), 2, func(w *W64) *ev.Fail {
		if f := checkState64("history", w.B, w.M); f != nil {
			return f
		}
		n, f := battery64(w.B, w.M)
		atomic.AddInt64(&evals, int64(n))
		return f
	})
	bat.Deadline = c.Budget(80, 1400)
	if q {
		bat.MaxDepth = 1
	}
	pool := pool64(q)
	p0 := &explore.Product{Name: "pool states x query/iterator battery", Dims: []int{len(pool)}, Deadline: c.Budget(90, 1500),
		Run: func(idx []int) (string, *ev.Fail) {
			w := pool[idx[0]].Build()
			n, f := battery64(w.B, w.M)
			atomic.AddInt64(&evals, int64(n))
			if f == nil {
				if got := extract.Of64(w.B); !got.Equal(w.M) {
					f = fail("queries", "modified-content", "the read-only battery changed the bitmap: %s", diff64(got, w.M))
				}
			}
			return fmt.Sprint(n), f
		},
		Describe: func(idx []int) any { return pool[idx[0]].Name }}
	p1 := &explore.Product{Name: "pairs x {And,Or,Xor,AndNot} x {static,in-place} + shortcuts + Equals", Dims: []int{len(pool), len(pool), 12}, Deadline: c.Budget(95, 1550),
		Run: func(idx []int) (string, *ev.Fail) { return pairCall64(pool[idx[0]], pool[idx[1]], idx[2], false) },
		Describe: func(idx []int) any {
			return map[string]any{"a": pool[idx[0]].Name, "b": pool[idx[1]].Name, "call": idx[2]}
		}}
	p2 := &explore.Product{Name: "self application (same object)", Dims: []int{len(pool), 12}, Deadline: c.Budget(100, 1600),
		Run:      func(idx []int) (string, *ev.Fail) { return pairCall64(pool[idx[0]], pool[idx[0]], idx[1], true) },
		Describe: func(idx []int) any { return map[string]any{"a": pool[idx[0]].Name, "call": idx[1]} }}
	flipPts := []uint64{0, 5, 1<<32 - 1, 1 << 32, 1<<32 + 5, 2<<32 + 5, 3 << 32, top64, top64 + 9, ^uint64(0)}
	flips := pairsWithin(flipPts, 4)
	flips = append(flips, [2]uint64{5, 5}, [2]uint64{9, 3})
	p3 := &explore.Product{Name: "static Flip vs in-place Flip", Dims: []int{len(pool), len(flips)}, Deadline: c.Budget(108, 1700),
		Run: func(idx []int) (string, *ev.Fail) {
			a := pool[idx[0]].Build()
			s, e := flips[idx[1]][0], flips[idx[1]][1]
			want := a.M.Clone()
			want.FlipRange(s, e)
			r := roaring64.Flip(a.B, s, e)
			name := fmt.Sprintf("Flip(b,%#x,%#x)", s, e)
			if got := extract.Of64(r); !got.Equal(want) {
				return "", fail("Flip", "result", "%s wrong: %s", name, diff64(got, want))
			}
			if st := extract.Invariants64(r); st != "" {
				return "", fail("Flip", "invariant", "%s result malformed: %s", name, st)
			}
			if got := extract.Of64(a.B); !got.Equal(a.M) {
				return "", fail("Flip", "operand-modified", "%s modified b", name)
			}
			cl := a.B.Clone()
			cl.Flip(s, e)
			if !cl.Equals(r) {
				return "", fail("Flip", "static-vs-inplace", "%s differs from in-place Flip on a clone", name)
			}
			return "ok", nil
		},
		Describe: func(idx []int) any { return map[string]any{"b": pool[idx[0]].Name, "range": flips[idx[1]]} }}
	// aggregates over lists <= 3
	var lists [][]int
	var gen func(cur []int)
	small := []int{0, 1, 3, 4, 5, 6, 7}
	gen = func(cur []int) {
		lists = append(lists, append([]int(nil), cur...))
		if len(cur) == 3 {
			return
		}
		for _, i := range small {
			gen(append(cur, i))
		}
	}
	gen(nil)
	p4 := &explore.Product{Name: "FastOr / FastAnd / ParOr over lists <= 3 x workers", Dims: []int{len(lists)}, Deadline: c.Budget(116, 1780),
		Run: func(idx []int) (string, *ev.Fail) {
			l := lists[idx[0]]
			build := func() ([]*roaring64.Bitmap, []*model.Set64) {
				var bs []*roaring64.Bitmap
				var ms []*model.Set64
				for _, pi := range l {
					w := pool[pi].Build()
					bs, ms = append(bs, w.B), append(ms, w.M)
				}
				return bs, ms
			}
			or := func(ms []*model.Set64) *model.Set64 {
				o := model.New64()
				for _, m := range ms {
					o = model.Or64(o, m)
				}
				return o
			}
			and := func(ms []*model.Set64) *model.Set64 {
				if len(ms) == 0 {
					return model.New64()
				}
				o := ms[0]
				for _, m := range ms[1:] {
					o = model.And64(o, m)
				}
				return o
			}
			check := func(name string, r *roaring64.Bitmap, want *model.Set64, bs []*roaring64.Bitmap, ms []*model.Set64) *ev.Fail {
				if got := extract.Of64(r); !got.Equal(want) {
					return fail(name, "result", "%s over %d bitmaps wrong: %s", name, len(bs), diff64(got, want))
				}
				if s := extract.Invariants64(r); s != "" {
					return fail(name, "invariant", "%s result malformed: %s", name, s)
				}
				for i := range bs {
					if got := extract.Of64(bs[i]); !got.Equal(ms[i]) {
						return fail(name, "operand-modified", "%s modified operand %d", name, i)
					}
				}
				return nil
			}
			bs, ms := build()
			if f := check("FastOr", roaring64.FastOr(bs...), or(ms), bs, ms); f != nil {
				return "", f
			}
			bs, ms = build()
			if f := check("FastAnd", roaring64.FastAnd(bs...), and(ms), bs, ms); f != nil {
				return "", f
			}
			for _, w := range []int{0, 1, 2, 3} {
				bs, ms = build()
				args := append([]*roaring64.Bitmap(nil), bs...)
				r := roaring64.ParOr(w, args...)
				for i := range args {
					if args[i] != bs[i] {
						return "", fail("ParOr", "caller-slice-modified", "roaring64.ParOr modified the caller's argument slice at %d", i)
					}
				}
				if f := check(fmt.Sprintf("ParOr(workers=%d)", w), r, or(ms), bs, ms); f != nil {
					f.API = "ParOr"
					return "", f
				}
			}
			return fmt.Sprint(len(l)), nil
		},
		Describe: func(idx []int) any {
			var names []string
			for _, pi := range lists[idx[0]] {
				names = append(names, pool[pi].Name)
			}
			return names
		}}
	lows := []int64{0, -1, 0x70000000}
	p5 := &explore.Product{Name: "bucket-span family x worker counts (ParOr)", Dims: []int{24, len(lows), 2}, Deadline: c.Budget(119, 1795),
		Run: func(idx []int) (string, *ev.Fail) {
			r := int64(idx[0] + 1)
			lo := lows[idx[1]]
			if lo < 0 {
				lo = 1<<32 - r
			}
			var bs []*roaring64.Bitmap
			var ms []*model.Set64
			add := func(keys []int64) {
				b, m := roaring64.New(), model.New64()
				for _, k := range keys {
					v := uint64(k)<<32 | uint64(k&0xFF)
					b.Add(v)
					m.Add(v)
				}
				bs, ms = append(bs, b), append(ms, m)
			}
			if idx[2] == 0 {
				for k := lo; k < lo+r; k++ {
					add([]int64{k})
				}
			} else {
				add([]int64{lo})
				add([]int64{lo + r/2})
				add([]int64{lo + r - 1})
			}
			want := model.New64()
			for _, m := range ms {
				want = model.Or64(want, m)
			}
			for w := 0; w <= 4; w++ {
				res := roaring64.ParOr(w, append([]*roaring64.Bitmap(nil), bs...)...)
				desc := fmt.Sprintf("roaring64.ParOr(workers=%d) over %d bitmaps, buckets %#x..%#x", w, len(bs), lo, lo+r-1)
				if got := extract.Of64(res); !got.Equal(want) {
					return "", fail("ParOr", "bucketspan-result", "%s wrong: %s", desc, diff64(got, want))
				}
				if st := extract.Invariants64(res); st != "" {
					return "", fail("ParOr", "invariant", "%s result malformed: %s", desc, st)
				}
			}
			return fmt.Sprint(idx[2]), nil
		},
		Describe: func(idx []int) any { return map[string]any{"span": idx[0] + 1, "low": lows[idx[1]], "variant": idx[2]} }}
	runScenarios(c, fix, wide, bat, p0, p1, p2, p3, p4, p5)
	c.R.SetExtra("query_and_iterator_evaluations", atomic.LoadInt64(&evals))
}
