package props

import (
	"bytes"
	"fmt"
	"math"
	"math/big"
	"sort"

	"github.com/RoaringBitmap/roaring/v2"
	bsi32 "github.com/RoaringBitmap/roaring/v2/BitSliceIndexing"
	"github.com/RoaringBitmap/roaring/v2/roaring64"
)

// bsiModel is the boring reference: column id -> value.
type bsiModel map[uint64]*big.Int

func (m bsiModel) clone() bsiModel {
	o := bsiModel{}
	for k, v := range m {
		o[k] = new(big.Int).Set(v)
	}
	return o
}

func (m bsiModel) cols() []uint64 {
	cs := make([]uint64, 0, len(m))
	for c := range m {
		cs = append(cs, c)
	}
	sort.Slice(cs, func(i, j int) bool { return cs[i] < cs[j] })
	return cs
}

func (m bsiModel) key() string {
	s := ""
	for _, c := range m.cols() {
		s += fmt.Sprintf("%d:%s,", c, m[c].String())
	}
	return s
}

func (m bsiModel) allNonNegative() bool {
	for _, v := range m {
		if v.Sign() < 0 {
			return false
		}
	}
	return true
}

// bsiAPI abstracts the two implementations. Methods that an implementation lacks report ok=false.
type bsiAPI interface {
	Impl() string
	Planes() int
	RunOptimized() bool
	SetValue(c uint64, v int64)
	SetBig(c uint64, v *big.Int) bool
	SetMany(cols []uint64, v int64)
	ClearValues(cols []uint64)
	Retain(cols []uint64) (uint64, bool)
	ParOr(par int, others ...bsiAPI)
	Increment(cols []uint64, all bool)
	Add(other bsiAPI)
	RunOptimize()
	Clone() bsiAPI
	RetainSetNew(cols []uint64) bsiAPI
	MarshalRoundTrip() (bsiAPI, error)
	// MarshalInto decodes MarshalBinary's output into another kind of receiver: 1 = a fresh index created for the full
	// int64 range, 2 = a default index that already holds other columns and wider values
	MarshalInto(kind int) (bsiAPI, error)
	// aliased arguments: the index's own existence bitmap object as found set; the index itself as addend
	ClearOwn()
	AddSelf()
	StreamRoundTrip() (bsiAPI, int64, int64, error, bool)
	Equals(o bsiAPI) bool
	GetValue(c uint64) (int64, bool)
	GetBig(c uint64) (*big.Int, bool, bool)
	GetValues(cols []uint64) ([]int64, []bool, bool)
	GetBigValues(cols []uint64) ([]*big.Int, bool)
	ValueExists(c uint64) bool
	Card() uint64
	PlaneLeak() string
	// queries; found == nil means "no found set"; ownEBM passes the index's own existence bitmap object
	CompareValue(par int, op int, a, b int64, found []uint64, nilFound, ownEBM bool) []uint64
	CompareBig(par int, op int, a, b *big.Int, found []uint64, nilFound bool) ([]uint64, bool)
	CompareBSI(op int, o bsiAPI, found []uint64, nilFound bool) ([]uint64, bool)
	BatchEqual(par int, vals []int64) []uint64
	BatchEqualBig(par int, vals []*big.Int) ([]uint64, bool)
	BatchEqualValues(par int, vals []int64, found []uint64, nilFound bool) (map[uint64]int64, bool)
	MinMax(par int, op int, found []uint64, nilFound bool) int64
	MinMaxBig(par int, op int, found []uint64, nilFound bool) (*big.Int, bool)
	Sum(found []uint64, nilFound bool) (int64, uint64)
	SumBig(found []uint64, nilFound bool) (*big.Int, uint64, bool)
	Transpose() []uint64
	IntersectAndTranspose(par int, found []uint64, nilFound bool) []uint64
	TransposeWithCounts(par int, found []uint64, nilFound bool) map[uint64]int64
	// TransposeWithCountsNilFilter: the same with no filter argument where the implementation has one (ok=false otherwise)
	TransposeWithCountsNilFilter(par int, found []uint64, nilFound bool) (map[uint64]int64, bool)
	// MutateResult: mutates the bitmap returned by a fresh CompareValue(EQ...)-like query and reports whether a repeated query changed
	ResultIndependent(par int, op int, a int64) bool
}

// ---- 64-bit adapter ----

type a64 struct{ b *roaring64.BSI }

func new64(auto bool, max, min int64) bsiAPI {
	if auto {
		return &a64{roaring64.NewDefaultBSI()}
	}
	return &a64{roaring64.NewBSI(max, min)}
}

func bm64(cols []uint64) *roaring64.Bitmap { return roaring64.BitmapOf(cols...) }

func found64(x *a64, cols []uint64, nilFound, own bool) *roaring64.Bitmap {
	if own {
		return x.b.GetExistenceBitmap()
	}
	if nilFound {
		return nil
	}
	return bm64(cols)
}

func (x *a64) Impl() string               { return "roaring64.BSI" }
func (x *a64) Planes() int                { return len(roaring64.VerifBSIViewOf(x.b).Planes) }
func (x *a64) RunOptimized() bool         { return roaring64.VerifBSIViewOf(x.b).RunOptimized }
func (x *a64) SetValue(c uint64, v int64) { x.b.SetValue(c, v) }
func (x *a64) SetBig(c uint64, v *big.Int) bool {
	x.b.SetBigValue(c, new(big.Int).Set(v))
	return true
}
func (x *a64) SetMany(cols []uint64, v int64) { x.b.SetMany(bm64(cols), v) }
func (x *a64) ClearValues(cols []uint64)      { x.b.ClearValues(bm64(cols)) }
func (x *a64) Retain(cols []uint64) (uint64, bool) {
	return x.b.Retain(bm64(cols)), true
}
func (x *a64) ParOr(par int, others ...bsiAPI) {
	var os []*roaring64.BSI
	for _, o := range others {
		os = append(os, o.(*a64).b)
	}
	x.b.ParOr(par, os...)
}
func (x *a64) Increment(cols []uint64, all bool) {
	if all {
		x.b.IncrementAll()
		return
	}
	x.b.Increment(bm64(cols))
}
func (x *a64) Add(o bsiAPI)  { x.b.Add(o.(*a64).b) }
func (x *a64) RunOptimize()  { x.b.RunOptimize() }
func (x *a64) Clone() bsiAPI { return &a64{x.b.Clone()} }
func (x *a64) RetainSetNew(cols []uint64) bsiAPI {
	return &a64{x.b.NewBSIRetainSet(bm64(cols))}
}
func (x *a64) MarshalRoundTrip() (bsiAPI, error) {
	data, err := x.b.MarshalBinary()
	if err != nil {
		return nil, err
	}
	n := roaring64.NewDefaultBSI()
	if err := n.UnmarshalBinary(data); err != nil {
		return nil, err
	}
	return &a64{n}, nil
}
func (x *a64) MarshalInto(kind int) (bsiAPI, error) {
	data, err := x.b.MarshalBinary()
	if err != nil {
		return nil, err
	}
	var n *roaring64.BSI
	switch kind {
	case 1:
		n = roaring64.NewBSI(math.MaxInt64, math.MinInt64)
	case 3:
		// fixed width, and the columns the alphabets use already hold wide positive and negative values: every plane of
		// the receiver is populated on exactly the columns the decoded data brings
		n = roaring64.NewBSI(math.MaxInt64, math.MinInt64)
		for c := uint64(0); c < 12; c++ {
			n.SetValue(c, (1<<40+0x155)*(1-2*int64(c%2)))
		}
	default:
		n = roaring64.NewDefaultBSI()
		n.SetValue(7, -5)
		n.SetValue(8, 1<<20)
		n.SetValue(1<<40, 3)
	}
	if err := n.UnmarshalBinary(data); err != nil {
		return nil, err
	}
	return &a64{n}, nil
}
func (x *a64) ClearOwn() { x.b.ClearValues(x.b.GetExistenceBitmap()) }
func (x *a64) AddSelf()  { x.b.Add(x.b) }
func (x *a64) StreamRoundTrip() (bsiAPI, int64, int64, error, bool) {
	var buf bytes.Buffer
	w, err := x.b.WriteTo(&buf)
	if err != nil {
		return nil, w, 0, err, true
	}
	if w != int64(buf.Len()) {
		return nil, w, int64(buf.Len()), fmt.Errorf("WriteTo returned %d but wrote %d bytes", w, buf.Len()), true
	}
	n := roaring64.NewDefaultBSI()
	r, err := n.ReadFrom(bytes.NewReader(buf.Bytes()))
	return &a64{n}, w, r, err, true
}
func (x *a64) Equals(o bsiAPI) bool            { return x.b.Equals(o.(*a64).b) }
func (x *a64) GetValue(c uint64) (int64, bool) { return x.b.GetValue(c) }
func (x *a64) GetBig(c uint64) (*big.Int, bool, bool) {
	v, ok := x.b.GetBigValue(c)
	return v, ok, true
}
func (x *a64) GetValues(cols []uint64) ([]int64, []bool, bool) {
	v, e := x.b.GetValues(cols)
	return v, e, true
}
func (x *a64) GetBigValues(cols []uint64) ([]*big.Int, bool) { return x.b.GetBigValues(cols), true }
func (x *a64) ValueExists(c uint64) bool                     { return x.b.ValueExists(c) }
func (x *a64) Card() uint64                                  { return x.b.GetCardinality() }
func (x *a64) PlaneLeak() string {
	v := roaring64.VerifBSIViewOf(x.b)
	for i, p := range v.Planes {
		l := roaring64.AndNot(p, v.Existence)
		if !l.IsEmpty() {
			return fmt.Sprintf("plane %d holds column %d which is absent from the existence bitmap", i, l.Minimum())
		}
	}
	return ""
}
func arr64(b *roaring64.Bitmap) []uint64 {
	if b == nil {
		return nil
	}
	return b.ToArray()
}
func (x *a64) CompareValue(par, op int, a, b int64, found []uint64, nilFound, own bool) []uint64 {
	return arr64(x.b.CompareValue(par, roaring64.Operation(op), a, b, found64(x, found, nilFound, own)))
}
func (x *a64) CompareBig(par, op int, a, b *big.Int, found []uint64, nilFound bool) ([]uint64, bool) {
	return arr64(x.b.CompareBigValue(par, roaring64.Operation(op), a, b, found64(x, found, nilFound, false))), true
}
func (x *a64) CompareBSI(op int, o bsiAPI, found []uint64, nilFound bool) ([]uint64, bool) {
	return arr64(x.b.CompareBSI(roaring64.Operation(op), o.(*a64).b, found64(x, found, nilFound, false))), true
}
func (x *a64) BatchEqual(par int, vals []int64) []uint64 { return arr64(x.b.BatchEqual(par, vals)) }
func (x *a64) BatchEqualBig(par int, vals []*big.Int) ([]uint64, bool) {
	return arr64(x.b.BatchEqualBig(par, vals)), true
}
func (x *a64) BatchEqualValues(par int, vals []int64, found []uint64, nilFound bool) (map[uint64]int64, bool) {
	out := map[uint64]int64{}
	for _, p := range x.b.BatchEqualValues(par, vals, found64(x, found, nilFound, false)) {
		if _, dup := out[p.ColumnID]; dup {
			out[^uint64(0)] = -12345 // duplicate column marker
		}
		out[p.ColumnID] = p.Value
	}
	return out, true
}
func (x *a64) MinMax(par, op int, found []uint64, nilFound bool) int64 {
	return x.b.MinMax(par, roaring64.Operation(op), found64(x, found, nilFound, false))
}
func (x *a64) MinMaxBig(par, op int, found []uint64, nilFound bool) (*big.Int, bool) {
	return x.b.MinMaxBig(par, roaring64.Operation(op), found64(x, found, nilFound, false)), true
}
func (x *a64) Sum(found []uint64, nilFound bool) (int64, uint64) {
	return x.b.Sum(found64(x, found, nilFound, false))
}
func (x *a64) SumBig(found []uint64, nilFound bool) (*big.Int, uint64, bool) {
	s, c := x.b.SumBigValues(found64(x, found, nilFound, false))
	return s, c, true
}
func (x *a64) Transpose() []uint64 { return arr64(x.b.Transpose()) }
func (x *a64) IntersectAndTranspose(par int, found []uint64, nilFound bool) []uint64 {
	return arr64(x.b.IntersectAndTranspose(par, found64(x, found, nilFound, false)))
}
func (x *a64) TransposeWithCounts(par int, found []uint64, nilFound bool) map[uint64]int64 {
	// filterSet selects which *values* are counted; pass every stored value so the histogram is complete
	// (a nil filterSet defaults to the existence bitmap, i.e. only values that are also column ids)
	filter := roaring64.New()
	for _, c := range x.b.GetExistenceBitmap().ToArray() {
		if v, ok := x.b.GetValue(c); ok && v >= 0 {
			filter.Add(uint64(v))
		}
	}
	r := x.b.TransposeWithCounts(par, found64(x, found, nilFound, false), filter)
	out := map[uint64]int64{}
	for _, c := range r.GetExistenceBitmap().ToArray() {
		v, _ := r.GetValue(c)
		out[c] = v
	}
	return out
}
func (x *a64) TransposeWithCountsNilFilter(par int, found []uint64, nilFound bool) (map[uint64]int64, bool) {
	r := x.b.TransposeWithCounts(par, found64(x, found, nilFound, false), nil)
	out := map[uint64]int64{}
	for _, c := range r.GetExistenceBitmap().ToArray() {
		v, _ := r.GetValue(c)
		out[c] = v
	}
	return out, true
}
func (x *a64) ResultIndependent(par, op int, a int64) bool {
	r1 := x.b.CompareValue(par, roaring64.Operation(op), a, a, nil)
	before := r1.ToArray()
	r1.AddRange(0, 100000)
	r1.RemoveRange(0, 5)
	r2 := x.b.CompareValue(par, roaring64.Operation(op), a, a, nil)
	after := r2.ToArray()
	if len(before) != len(after) {
		return false
	}
	for i := range before {
		if before[i] != after[i] {
			return false
		}
	}
	return true
}

// ---- 32-bit adapter ----

type a32 struct{ b *bsi32.BSI }

func new32(auto bool, max, min int64) bsiAPI {
	if auto {
		return &a32{bsi32.NewDefaultBSI()}
	}
	return &a32{bsi32.NewBSI(max, min)}
}

func bm32(cols []uint64) *roaring.Bitmap {
	b := roaring.New()
	for _, c := range cols {
		b.Add(uint32(c))
	}
	return b
}

func found32(x *a32, cols []uint64, nilFound, own bool) *roaring.Bitmap {
	if own {
		return x.b.GetExistenceBitmap()
	}
	if nilFound {
		return nil
	}
	return bm32(cols)
}

func arr32(b *roaring.Bitmap) []uint64 {
	if b == nil {
		return nil
	}
	var out []uint64
	for _, v := range b.ToArray() {
		out = append(out, uint64(v))
	}
	return out
}

func (x *a32) Impl() string                        { return "BitSliceIndexing.BSI" }
func (x *a32) Planes() int                         { return len(bsi32.VerifBSIViewOf(x.b).Planes) }
func (x *a32) RunOptimized() bool                  { return bsi32.VerifBSIViewOf(x.b).RunOptimized }
func (x *a32) SetValue(c uint64, v int64)          { x.b.SetValue(c, v) }
func (x *a32) SetBig(c uint64, v *big.Int) bool    { return false }
func (x *a32) SetMany(cols []uint64, v int64)      { x.b.SetMany(bm32(cols), v) }
func (x *a32) ClearValues(cols []uint64)           { x.b.ClearValues(bm32(cols)) }
func (x *a32) Retain(cols []uint64) (uint64, bool) { return 0, false }
func (x *a32) ParOr(par int, others ...bsiAPI) {
	var os []*bsi32.BSI
	for _, o := range others {
		os = append(os, o.(*a32).b)
	}
	x.b.ParOr(par, os...)
}
func (x *a32) Increment(cols []uint64, all bool) {
	if all {
		x.b.IncrementAll()
		return
	}
	x.b.Increment(bm32(cols))
}
func (x *a32) Add(o bsiAPI)  { x.b.Add(o.(*a32).b) }
func (x *a32) RunOptimize()  { x.b.RunOptimize() }
func (x *a32) Clone() bsiAPI { return &a32{x.b.Clone()} }
func (x *a32) RetainSetNew(cols []uint64) bsiAPI {
	return &a32{x.b.NewBSIRetainSet(bm32(cols))}
}
func (x *a32) MarshalRoundTrip() (bsiAPI, error) {
	data, err := x.b.MarshalBinary()
	if err != nil {
		return nil, err
	}
	n := bsi32.NewDefaultBSI()
	if err := n.UnmarshalBinary(data); err != nil {
		return nil, err
	}
	return &a32{n}, nil
}
func (x *a32) MarshalInto(kind int) (bsiAPI, error) {
	data, err := x.b.MarshalBinary()
	if err != nil {
		return nil, err
	}
	var n *bsi32.BSI
	switch kind {
	case 1:
		n = bsi32.NewBSI(math.MaxInt64, math.MinInt64)
	case 3:
		n = bsi32.NewBSI(math.MaxInt64, math.MinInt64)
		for c := uint64(0); c < 12; c++ {
			n.SetValue(c, (1<<40+0x155)*(1-2*int64(c%2)))
		}
	default:
		n = bsi32.NewDefaultBSI()
		n.SetValue(7, -5)
		n.SetValue(8, 1<<20)
		n.SetValue(1<<30, 3)
	}
	if err := n.UnmarshalBinary(data); err != nil {
		return nil, err
	}
	return &a32{n}, nil
}
func (x *a32) ClearOwn()                                            { x.b.ClearValues(x.b.GetExistenceBitmap()) }
func (x *a32) AddSelf()                                             { x.b.Add(x.b) }
func (x *a32) StreamRoundTrip() (bsiAPI, int64, int64, error, bool) { return nil, 0, 0, nil, false }

// Equals: the 32-bit implementation has no Equals; compare plane by plane through the hook (content only).
func (x *a32) Equals(o bsiAPI) bool {
	a, b := bsi32.VerifBSIViewOf(x.b), bsi32.VerifBSIViewOf(o.(*a32).b)
	if !a.Existence.Equals(b.Existence) {
		return false
	}
	for i := 0; i < len(a.Planes) || i < len(b.Planes); i++ {
		switch {
		case i >= len(a.Planes):
			if !b.Planes[i].IsEmpty() {
				return false
			}
		case i >= len(b.Planes):
			if !a.Planes[i].IsEmpty() {
				return false
			}
		default:
			if !a.Planes[i].Equals(b.Planes[i]) {
				return false
			}
		}
	}
	return true
}
func (x *a32) GetValue(c uint64) (int64, bool)                 { return x.b.GetValue(c) }
func (x *a32) GetBig(c uint64) (*big.Int, bool, bool)          { return nil, false, false }
func (x *a32) GetValues(cols []uint64) ([]int64, []bool, bool) { return nil, nil, false }
func (x *a32) GetBigValues(cols []uint64) ([]*big.Int, bool)   { return nil, false }
func (x *a32) ValueExists(c uint64) bool                       { return x.b.ValueExists(c) }
func (x *a32) Card() uint64                                    { return x.b.GetCardinality() }
func (x *a32) PlaneLeak() string {
	v := bsi32.VerifBSIViewOf(x.b)
	for i, p := range v.Planes {
		l := roaring.AndNot(p, v.Existence)
		if !l.IsEmpty() {
			return fmt.Sprintf("plane %d holds column %d which is absent from the existence bitmap", i, l.Minimum())
		}
	}
	return ""
}
func (x *a32) CompareValue(par, op int, a, b int64, found []uint64, nilFound, own bool) []uint64 {
	return arr32(x.b.CompareValue(par, bsi32.Operation(op), a, b, found32(x, found, nilFound, own)))
}
func (x *a32) CompareBig(par, op int, a, b *big.Int, found []uint64, nilFound bool) ([]uint64, bool) {
	return nil, false
}
func (x *a32) CompareBSI(op int, o bsiAPI, found []uint64, nilFound bool) ([]uint64, bool) {
	return nil, false
}
func (x *a32) BatchEqual(par int, vals []int64) []uint64               { return arr32(x.b.BatchEqual(par, vals)) }
func (x *a32) BatchEqualBig(par int, vals []*big.Int) ([]uint64, bool) { return nil, false }
func (x *a32) BatchEqualValues(par int, vals []int64, found []uint64, nilFound bool) (map[uint64]int64, bool) {
	return nil, false
}
func (x *a32) MinMax(par, op int, found []uint64, nilFound bool) int64 {
	return x.b.MinMax(par, bsi32.Operation(op), found32(x, found, nilFound, false))
}
func (x *a32) MinMaxBig(par, op int, found []uint64, nilFound bool) (*big.Int, bool) {
	return nil, false
}
func (x *a32) Sum(found []uint64, nilFound bool) (int64, uint64) {
	return x.b.Sum(found32(x, found, nilFound, false))
}
func (x *a32) SumBig(found []uint64, nilFound bool) (*big.Int, uint64, bool) { return nil, 0, false }
func (x *a32) Transpose() []uint64                                           { return arr32(x.b.Transpose()) }
func (x *a32) IntersectAndTranspose(par int, found []uint64, nilFound bool) []uint64 {
	return arr32(x.b.IntersectAndTranspose(par, found32(x, found, nilFound, false)))
}
func (x *a32) TransposeWithCounts(par int, found []uint64, nilFound bool) map[uint64]int64 {
	r := x.b.TransposeWithCounts(par, found32(x, found, nilFound, false))
	out := map[uint64]int64{}
	for _, c := range r.GetExistenceBitmap().ToArray() {
		v, _ := r.GetValue(uint64(c))
		out[uint64(c)] = v
	}
	return out
}
func (x *a32) TransposeWithCountsNilFilter(par int, found []uint64, nilFound bool) (map[uint64]int64, bool) {
	return nil, false
}
func (x *a32) ResultIndependent(par, op int, a int64) bool {
	r1 := x.b.CompareValue(par, bsi32.Operation(op), a, a, nil)
	before := r1.ToArray()
	r1.AddRange(0, 100000)
	r1.RemoveRange(0, 5)
	r2 := x.b.CompareValue(par, bsi32.Operation(op), a, a, nil)
	return sliceEq(before, r2.ToArray())
}
