package props

import (
	"sync"
	"time"

	"fmt"
	"github.com/RoaringBitmap/roaring/v2"
	"sort"
	"verifmc/internal/ev"

	"verifmc/internal/model"
	"verifmc/internal/shapes"
)

// mixedPool: multi-chunk bitmaps mixing kinds, with <4 and >=4 chunks, with and without run chunks.
func mixedPool(quick bool) []recipe {
	A := bit(shapes.Lo, shapes.W, shapes.Mid, shapes.Hi)
	B := bit(shapes.S4095, shapes.Lo, shapes.Hi)
	R := bit(shapes.Big)
	F := bit(shapes.Full)
	H := bit(shapes.Full, shapes.Hole)
	M := bit(shapes.R2047)
	type ks = []shapes.ChunkSpec
	specs := []ks{
		{},
		{{Key: 0, Mask: A}},
		{{Key: 0xFFFF, Mask: A}},
		{{Key: 0, Mask: A}, {Key: 1, Mask: B}, {Key: 2, Mask: R}},
		{{Key: 0, Mask: F}, {Key: 1, Mask: F}, {Key: 2, Mask: A}},
		{{Key: 0, Mask: B}, {Key: 1, Mask: F}, {Key: 2, Mask: F}, {Key: 3, Mask: H}},
		{{Key: 0, Mask: A}, {Key: 1, Mask: A}, {Key: 5, Mask: B}, {Key: 0xFFFF, Mask: A}},
		{{Key: 0, Mask: R}, {Key: 2, Mask: M}, {Key: 5, Mask: B}, {Key: 0x7FFF, Mask: A}, {Key: 0x8000, Mask: F}, {Key: 0xFFFE, Mask: R}, {Key: 0xFFFF, Mask: F}},
		{{Key: 1, Mask: bit(shapes.Hi)}, {Key: 2, Mask: bit(shapes.Lo)}},
		{{Key: 1, Mask: bit(shapes.H63, shapes.Hi)}, {Key: 2, Mask: bit(shapes.Lo, shapes.R62)}, {Key: 3, Mask: bit(shapes.Lo)}},
		{{Key: 0xFFFE, Mask: F}, {Key: 0xFFFF, Mask: F}},
		{{Key: 0, Mask: bit(shapes.Lo)}, {Key: 0xFFFF, Mask: bit(shapes.Hi)}},
	}
	var rs []recipe
	for _, cs := range specs {
		for mode := 0; mode < shapes.NModes; mode++ {
			if quick && mode == shapes.Ranges {
				continue
			}
			for _, sh := range []int{shapes.Plain, shapes.COW, shapes.ZeroC, shapes.Frozen} {
				if len(cs) == 0 && (sh != shapes.Plain || mode != 0) {
					continue
				}
				if quick && sh == shapes.COW {
					continue
				}
				rs = append(rs, specRecipe(shapes.Spec{Chunks: cs, Mode: mode, Share: sh}))
			}
		}
	}
	return dedupe(rs)
}

// corpus32 is the set of bitmap states over which the query / iterator /
// serialisation / transform properties are checked exhaustively.
func corpus32(quick bool) []recipe {
	var rs []recipe
	rs = append(rs, closureCorpus(quick)...)
	rs = append(rs, l1Pool(1, quick)...)
	rs = append(rs, l1Pool(0xFFFF, true)...)
	rs = append(rs, mixedPool(quick)...)
	rs = append(rs, l3Pool(true)...)
	return rs
}

// smallCorpus32 keeps only states of modest cardinality (for quadratic protocols).
func smallCorpus32(quick bool, maxCard uint64) []recipe {
	var out []recipe
	for _, r := range corpus32(quick) {
		if r.Build().M.Card() <= maxCard {
			out = append(out, r)
		}
	}
	return out
}

var lowPoints = []uint32{0, 1, 62, 63, 64, 65, 4095, 4096, 4097, 32767, 32768, 65534, 65535}

// argPoints: query arguments for a state: boundary low points in every present
// chunk, its neighbours, gap chunks, bottom and top of the key space, plus the
// edges (+-1) of the content's maximal runs (first/last few per chunk).
func argPoints(m *model.Set32) []uint32 {
	set := map[uint32]struct{}{}
	keys := map[uint32]struct{}{0: {}, 0xFFFF: {}, 0x7FFF: {}}
	for _, k := range m.Keys() {
		for d := -1; d <= 1; d++ {
			kk := int(k) + d
			if kk >= 0 && kk <= 0xFFFF {
				keys[uint32(kk)] = struct{}{}
			}
		}
	}
	for k := range keys {
		for _, l := range lowPoints {
			set[k<<16|l] = struct{}{}
		}
	}
	for _, rg := range runEdges(m, 6) {
		for _, x := range []int64{int64(rg[0]) - 1, int64(rg[0]), int64(rg[1]), int64(rg[1]) + 1} {
			if x >= 0 && x <= 0xFFFFFFFF {
				set[uint32(x)] = struct{}{}
			}
		}
	}
	out := make([]uint32, 0, len(set))
	for x := range set {
		out = append(out, x)
	}
	sort.Slice(out, func(i, j int) bool { return out[i] < out[j] })
	return out
}

// runsOf returns the maximal runs [s,e] of the content, in order (merged across chunk edges).
func runsOf(m *model.Set32) [][2]uint32 {
	var out [][2]uint32
	vs := m.Slice()
	for i := 0; i < len(vs); {
		j := i
		for j+1 < len(vs) && vs[j+1] == vs[j]+1 {
			j++
		}
		out = append(out, [2]uint32{vs[i], vs[j]})
		i = j + 1
	}
	return out
}

// runEdges: per chunk, the first and last n maximal in-chunk runs.
func runEdges(m *model.Set32, n int) [][2]uint32 {
	var out [][2]uint32
	for _, k := range m.Keys() {
		one := model.New32()
		one.M[k] = m.M[k]
		rs := runsOf(one)
		if len(rs) <= 2*n {
			out = append(out, rs...)
		} else {
			out = append(out, rs[:n]...)
			out = append(out, rs[len(rs)/2])
			out = append(out, rs[len(rs)-n:]...)
		}
	}
	return out
}

func descr(r recipe) string { return fmt.Sprint(r.Name) }

// closureCorpus: states reached by the one-chunk mutation closure (C02's S1fix alphabet at key 1),
// one witness history per representation class (chunk kind, cardinality class, run-count class,
// copy-on-write flag). These are states only *histories* produce, e.g. a full chunk still held as
// a bitmap container, or a run chunk one value away from the array threshold.
var closureCache = map[bool][]recipe{}
var closureMu sync.Mutex

func closureCorpus(quick bool) []recipe {
	closureMu.Lock()
	defer closureMu.Unlock()
	if rs, ok := closureCache[quick]; ok {
		return rs
	}
	ops := s1FixOps(1)
	classes := map[string][]string{}
	var order []string
	b := bfs32("closure corpus", ops, 0)
	if quick {
		b.MaxDepth = 5
	}
	b.Deadline = time.Now().Add(60 * time.Second)
	b.Visit = func(w *W32, path []string) {
		v := roaring.VerifViewOf(w.B)
		cls := "empty"
		if len(v.Chunks) == 1 {
			ch := v.Chunks[0]
			card := int(w.M.Card())
			cc := "mid"
			switch {
			case card == 1:
				cc = "1"
			case card <= 64:
				cc = "<=64"
			case card == 4095, card == 4096, card == 4097, card == 65535, card == 65536:
				cc = fmt.Sprint(card)
			case card <= 4096:
				cc = "<=4096"
			}
			runs := len(runsOf(w.M))
			rc := "many"
			if runs <= 3 {
				rc = fmt.Sprint(runs)
			}
			cls = fmt.Sprintf("k%d/%s/runs%s/cow%v/%v", ch.Kind, cc, rc, ch.COW, v.COW)
			if !quick {
				// thorough: finer classes (exact small cardinalities and run counts, which edge values are present)
				cx := fmt.Sprint(card / 1000 * 1000)
				if card <= 70 || (card >= 4094 && card <= 4098) || card >= 65534 {
					cx = fmt.Sprint(card)
				}
				rx := fmt.Sprint(runs)
				if runs > 8 {
					rx = "many"
				}
				base := uint32(ch.Key) << 16
				cls = fmt.Sprintf("k%d/%s/runs%s/cow%v/%v/e%v%v%v%v", ch.Kind, cx, rx, ch.COW, v.COW, w.M.Contains(base), w.M.Contains(base|63), w.M.Contains(base|64), w.M.Contains(base|65535))
			}
		}
		if _, ok := classes[cls]; !ok {
			classes[cls] = append([]string(nil), path...)
			order = append(order, cls)
		}
	}
	silent := ev.NewRun("corpus", "quick", "model_checking", 0)
	silent.Quiet = true
	b.Run(silent)
	idx := map[string]int{}
	for i, o := range ops {
		idx[o.Name] = i
	}
	var rs []recipe
	for _, cls := range order {
		path := classes[cls]
		rs = append(rs, recipe{Name: fmt.Sprintf("{history %v}", path), Build: func() *shapes.Built {
			w := newW32()
			for _, n := range path {
				ops[idx[n]].F(w)
			}
			return &shapes.Built{B: w.B, M: w.M}
		}})
	}
	closureCache[quick] = rs
	return rs
}
