package props

import (
	"fmt"
	"sort"

	"verifmc/internal/model"
	"verifmc/internal/shapes"
)

// mixedPool: multi-chunk bitmaps mixing kinds, with <4 and >=4 chunks, with and without run chunks.
func mixedPool(quick bool) []recipe {
	A := bit(shapes.Lo, shapes.W, shapes.Mid, shapes.Hi)
	B := bit(shapes.S4095, shapes.Lo, shapes.Hi)
	R := bit(shapes.Big)
	F := bit(shapes.Full)
	H := bit(shapes.Full, shapes.Hole)
	M := bit(shapes.R2047)
	type ks = []shapes.ChunkSpec
	specs := []ks{
		{},
		{{Key: 0, Mask: A}},
		{{Key: 0xFFFF, Mask: A}},
		{{Key: 0, Mask: A}, {Key: 1, Mask: B}, {Key: 2, Mask: R}},
		{{Key: 0, Mask: F}, {Key: 1, Mask: F}, {Key: 2, Mask: A}},
		{{Key: 0, Mask: B}, {Key: 1, Mask: F}, {Key: 2, Mask: F}, {Key: 3, Mask: H}},
		{{Key: 0, Mask: A}, {Key: 1, Mask: A}, {Key: 5, Mask: B}, {Key: 0xFFFF, Mask: A}},
		{{Key: 0, Mask: R}, {Key: 2, Mask: M}, {Key: 5, Mask: B}, {Key: 0x7FFF, Mask: A}, {Key: 0x8000, Mask: F}, {Key: 0xFFFE, Mask: R}, {Key: 0xFFFF, Mask: F}},
		{{Key: 1, Mask: bit(shapes.Hi)}, {Key: 2, Mask: bit(shapes.Lo)}},
		{{Key: 1, Mask: bit(shapes.H63, shapes.Hi)}, {Key: 2, Mask: bit(shapes.Lo, shapes.R62)}, {Key: 3, Mask: bit(shapes.Lo)}},
		{{Key: 0xFFFE, Mask: F}, {Key: 0xFFFF, Mask: F}},
		{{Key: 0, Mask: bit(shapes.Lo)}, {Key: 0xFFFF, Mask: bit(shapes.Hi)}},
	}
	var rs []recipe
	for _, cs := range specs {
		for mode := 0; mode < shapes.NModes; mode++ {
			if quick && mode == shapes.Ranges {
				continue
			}
			for _, sh := range []int{shapes.Plain, shapes.COW, shapes.ZeroC, shapes.Frozen} {
				if len(cs) == 0 && (sh != shapes.Plain || mode != 0) {
					continue
				}
				if quick && sh == shapes.COW {
					continue
				}
				rs = append(rs, specRecipe(shapes.Spec{Chunks: cs, Mode: mode, Share: sh}))
			}
		}
	}
	return dedupe(rs)
}

// corpus32 is the set of bitmap states over which the query / iterator /
// serialisation / transform properties are checked exhaustively.
func corpus32(quick bool) []recipe {
	var rs []recipe
	rs = append(rs, l1Pool(1, quick)...)
	rs = append(rs, l1Pool(0xFFFF, true)...)
	rs = append(rs, mixedPool(quick)...)
	rs = append(rs, l3Pool(true)...)
	return rs
}

// smallCorpus32 keeps only states of modest cardinality (for quadratic protocols).
func smallCorpus32(quick bool, maxCard uint64) []recipe {
	var out []recipe
	for _, r := range corpus32(quick) {
		if r.Build().M.Card() <= maxCard {
			out = append(out, r)
		}
	}
	return out
}

var lowPoints = []uint32{0, 1, 62, 63, 64, 65, 4095, 4096, 4097, 32767, 32768, 65534, 65535}

// argPoints: query arguments for a state: boundary low points in every present
// chunk, its neighbours, gap chunks, bottom and top of the key space, plus the
// edges (+-1) of the content's maximal runs (first/last few per chunk).
func argPoints(m *model.Set32) []uint32 {
	set := map[uint32]struct{}{}
	keys := map[uint32]struct{}{0: {}, 0xFFFF: {}, 0x7FFF: {}}
	for _, k := range m.Keys() {
		for d := -1; d <= 1; d++ {
			kk := int(k) + d
			if kk >= 0 && kk <= 0xFFFF {
				keys[uint32(kk)] = struct{}{}
			}
		}
	}
	for k := range keys {
		for _, l := range lowPoints {
			set[k<<16|l] = struct{}{}
		}
	}
	for _, rg := range runEdges(m, 6) {
		for _, x := range []int64{int64(rg[0]) - 1, int64(rg[0]), int64(rg[1]), int64(rg[1]) + 1} {
			if x >= 0 && x <= 0xFFFFFFFF {
				set[uint32(x)] = struct{}{}
			}
		}
	}
	out := make([]uint32, 0, len(set))
	for x := range set {
		out = append(out, x)
	}
	sort.Slice(out, func(i, j int) bool { return out[i] < out[j] })
	return out
}

// runsOf returns the maximal runs [s,e] of the content, in order (merged across chunk edges).
func runsOf(m *model.Set32) [][2]uint32 {
	var out [][2]uint32
	vs := m.Slice()
	for i := 0; i < len(vs); {
		j := i
		for j+1 < len(vs) && vs[j+1] == vs[j]+1 {
			j++
		}
		out = append(out, [2]uint32{vs[i], vs[j]})
		i = j + 1
	}
	return out
}

// runEdges: per chunk, the first and last n maximal in-chunk runs.
func runEdges(m *model.Set32, n int) [][2]uint32 {
	var out [][2]uint32
	for _, k := range m.Keys() {
		one := model.New32()
		one.M[k] = m.M[k]
		rs := runsOf(one)
		if len(rs) <= 2*n {
			out = append(out, rs...)
		} else {
			out = append(out, rs[:n]...)
			out = append(out, rs[len(rs)/2])
			out = append(out, rs[len(rs)-n:]...)
		}
	}
	return out
}

func descr(r recipe) string { return fmt.Sprint(r.Name) }
