package props

import (
	"fmt"

	"verifmc/internal/explore"
	"verifmc/internal/shapes"
)

func init() { Drivers["C01"] = Driver{Level: "model_checking", Run: runC01} }

func bit(as ...int) uint32 {
	var m uint32
	for _, a := range as {
		m |= 1 << a
	}
	return m
}

// l1Masks: single-chunk contents, one per threshold / shortcut (DESIGN.md section 3).
func l1Masks(quick bool) []uint32 {
	S := shapes.Lo
	_ = S
	ms := []uint32{
		bit(shapes.Lo),
		bit(shapes.Lo, shapes.R62),
		bit(shapes.Lo, shapes.R62, shapes.W),
		bit(shapes.W),
		bit(shapes.S4095),
		bit(shapes.S4095, shapes.Lo),
		bit(shapes.S4095, shapes.Lo, shapes.Hi),
		bit(shapes.S1000a),
		bit(shapes.S1000b),
		bit(shapes.Big),
		bit(shapes.R2047),
		bit(shapes.R2047, shapes.R1),
		bit(shapes.Hi),
		bit(shapes.H63, shapes.Hi),
		bit(shapes.Full),
		bit(shapes.Full, shapes.Hole),
		bit(shapes.Mid),
	}
	if !quick {
		ms = append(ms,
			bit(shapes.S1000a, shapes.S1000b),
			bit(shapes.Big, shapes.S4095),
			bit(shapes.H63),
			bit(shapes.Lo, shapes.Hi),
			bit(shapes.Big, shapes.Lo, shapes.Hi),
			bit(shapes.S4095, shapes.Big, shapes.R2047),
			bit(shapes.R62, shapes.H63),
			bit(shapes.R2047, shapes.Big),
			bit(shapes.S1000a, shapes.Lo, shapes.R62),
		)
	}
	return ms
}

func l1Pool(key uint16, quick bool) []recipe {
	var rs []recipe
	shares := []int{shapes.Plain, shapes.COW, shapes.ZeroC, shapes.Frozen}
	if quick {
		shares = []int{shapes.Plain, shapes.COW, shapes.ZeroC}
	}
	for _, m := range l1Masks(quick) {
		for mode := 0; mode < shapes.NModes; mode++ {
			for _, sh := range shares {
				if quick && sh != shapes.Plain && mode == shapes.Ranges {
					continue
				}
				rs = append(rs, specRecipe(shapes.Spec{Chunks: []shapes.ChunkSpec{{Key: key, Mask: m}}, Mode: mode, Share: sh}))
			}
		}
	}
	return dedupe(rs)
}

// l2Pool: key-alignment patterns; every key is absent / small array / bitmap / full run.
func l2Pool(quick bool) []recipe {
	keys := []uint16{0, 1, 2, 0xFFFF}
	kinds := []uint32{0, bit(shapes.Lo, shapes.Mid), bit(shapes.Full), bit(shapes.S4095, shapes.Lo, shapes.Hi)}
	shares := []int{shapes.Plain, shapes.COW, shapes.ZeroC}
	if quick {
		kinds = kinds[:3]
		shares = shares[:2]
	}
	var rs []recipe
	n := 1
	for range keys {
		n *= len(kinds)
	}
	for code := 0; code < n; code++ {
		var cs []shapes.ChunkSpec
		c := code
		for _, k := range keys {
			if m := kinds[c%len(kinds)]; m != 0 {
				cs = append(cs, shapes.ChunkSpec{Key: k, Mask: m})
			}
			c /= len(kinds)
		}
		for _, sh := range shares {
			if len(cs) == 0 && sh != shapes.Plain {
				continue
			}
			rs = append(rs, specRecipe(shapes.Spec{Chunks: cs, Mode: shapes.Opt, Share: sh}))
		}
	}
	return rs
}

// l3Pool: many tiny chunks — linear/binary key search switch and galloping advanceUntil.
func l3Pool(quick bool) []recipe {
	var rs []recipe
	ns := []int{0, 1, 2, 15, 16, 17, 33, 64, 65}
	strides := []int{1, 2, 3, 5}
	if quick {
		ns = []int{1, 16, 17, 33, 65}
		strides = []int{1, 3}
	}
	for _, n := range ns {
		for _, st := range strides {
			for _, off := range []int{0, 1} {
				if n == 0 && (st != 1 || off != 0) {
					continue
				}
				var cs []shapes.ChunkSpec
				for i := 0; i < n; i++ {
					m := bit(shapes.Lo)
					if i%3 == 1 {
						m = bit(shapes.Mid)
					}
					cs = append(cs, shapes.ChunkSpec{Key: uint16(off + i*st), Mask: m})
				}
				rs = append(rs, recipe{Name: fmt.Sprintf("{%d chunks stride %d offset %d}", n, st, off), Build: shapes.Spec{Chunks: cs}.Build})
			}
		}
	}
	return rs
}

func c01Scenarios(c *Ctx, strict bool, pre string) []explore.Scenario {
	q := c.Quick()
	l1 := l1Pool(1, q)
	l2 := l2Pool(q)
	l3 := l3Pool(q)
	var all []recipe
	all = append(all, l1...)
	all = append(all, l2...)
	all = append(all, l3...)
	p1 := pairProduct(pre+"L1chunk-pairs", l1, strict)
	p2 := pairProduct(pre+"L2key-alignment", l2, strict)
	p3 := pairProduct(pre+"L3key-search", l3, strict)
	ps := selfProduct(pre+"self-application", all, strict)
	p1.Deadline, p2.Deadline, p3.Deadline, ps.Deadline = c.Budget(50, 900), c.Budget(80, 1500), c.Budget(95, 1700), c.Budget(100, 1800)
	return []explore.Scenario{p1, p2, p3, ps}
}

func runC01(c *Ctx) {
	runScenarios(c, c01Scenarios(c, false, "")...)
}

func c09Algebra(c *Ctx) []explore.Scenario { return c01Scenarios(c, true, "V:") }
