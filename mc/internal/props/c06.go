package props

import (
	"fmt"
	"os"
	"runtime"
	"sync/atomic"

	"github.com/RoaringBitmap/roaring/v2"
	"verifmc/internal/ev"
	"verifmc/internal/explore"
	"verifmc/internal/extract"
	"verifmc/internal/model"
	"verifmc/internal/spec"
)

func init() { Drivers["C06"] = Driver{Level: "model_checking", Run: runC06} }

type encChoice struct {
	Name        string
	ForceCookie bool
	Kind        func(key uint16, card int) int
	Gran        int
	Subset      int // when > 0: Subset-1 is a bit mask over key ranks
}

func encChoices() []encChoice {
	ab := func(uint16, int) int { return spec.KArray }
	run := func(uint16, int) int { return spec.KRun }
	alt := func(k uint16, _ int) int {
		if k%2 == 0 {
			return spec.KRun
		}
		return spec.KArray
	}
	alt2 := func(k uint16, _ int) int {
		if k%2 == 1 {
			return spec.KRun
		}
		return spec.KArray
	}
	bigRun := func(_ uint16, card int) int {
		if card > 4096 {
			return spec.KRun
		}
		return spec.KArray
	}
	// every run / non-run assignment for the first four chunks (bit i of mask = chunk index i is run-encoded):
	// resolved per state through the key order, see subsetKind
	return append(subsetChoices(), []encChoice{
		{"array/bitmap, plain cookie", false, ab, 0, 0},
		{"array/bitmap, run-capable cookie without run chunks", true, ab, 0, 0},
		{"all runs, maximal", false, run, 0, 0},
		{"all runs, one run per value", false, run, 1, 0},
		{"all runs, pieces of <=3 (adjacent runs)", false, run, 3, 0},
		{"all runs, pieces of <=64", false, run, 64, 0},
		{"runs on even keys", false, alt, 0, 0},
		{"runs on odd keys, pieces of <=2", false, alt2, 2, 0},
		{"runs only where cardinality > 4096", false, bigRun, 0, 0},
	}...)
}

// subsetChoices: 16 assignments of {run, array/bitmap} to the chunks at key ranks 0..3 (keys are ranked per state).
func subsetChoices() []encChoice {
	var out []encChoice
	for mask := 0; mask < 16; mask++ {
		mask := mask
		out = append(out, encChoice{Name: fmt.Sprintf("run-encode chunk ranks %04b, pieces of <=5", mask), Gran: 5, Subset: mask + 1})
	}
	return out
}

func runC06(c *Ctx) {
	q := c.Quick()
	corpus := corpus32(q)
	var execs, rexecs int64
	// write direction
	wr := &explore.Product{Name: "library bytes -> independent spec decoder", Dims: []int{len(corpus)}, Deadline: c.Budget(30, 600), Execs: &execs,
		Run: func(idx []int) (string, *ev.Fail) {
			src := corpus[idx[0]].Build()
			defer runtime.KeepAlive(src)
			data, err := src.B.ToBytes()
			if err != nil {
				return "", fail("ToBytes", "error", "%v", err)
			}
			cs, used, err := spec.DecodePortable(data, true)
			atomic.AddInt64(&execs, 1)
			if err != nil {
				return "", fail("WriteTo", "spec-violation", "bytes written by the library violate the format specification: %v", err)
			}
			if used != len(data) {
				return "", fail("WriteTo", "spec-length", "the specification accounts for %d bytes, the library wrote %d", used, len(data))
			}
			if got := spec.ToSet(cs); !got.Equal(src.M) {
				return "", fail("WriteTo", "spec-content", "bytes decode (per the specification) to a different set: %s", diff32(got, src.M))
			}
			kinds := ""
			for _, ch := range cs {
				kinds += "BAR"[ch.Kind : ch.Kind+1]
			}
			if len(kinds) > 6 {
				kinds = kinds[:6]
			}
			return kinds, nil
		}, Describe: func(idx []int) any { return corpus[idx[0]].Name }}
	// read direction
	encs := encChoices()
	rd := &explore.Product{Name: "spec-conformant encodings -> 5 library decoders", Dims: []int{len(corpus), len(encs), len(decoderNames)}, Deadline: c.Budget(100, 1500), Execs: &rexecs,
		Run: func(idx []int) (string, *ev.Fail) {
			src := corpus[idx[0]].Build()
			defer runtime.KeepAlive(src)
			e := encs[idx[1]]
			if e.Gran == 1 && src.M.Card() > 70000 {
				return "skipped-large", nil
			}
			kind := e.Kind
			if e.Subset > 0 {
				rank := map[uint16]int{}
				for i, k := range src.M.Keys() {
					rank[k] = i
				}
				mask := e.Subset - 1
				kind = func(k uint16, _ int) int {
					if r := rank[k]; r < 4 && mask&(1<<r) != 0 {
						return spec.KRun
					}
					return spec.KArray
				}
			}
			cs := spec.FromModel(src.M, kind, e.Gran)
			for _, ch := range cs {
				if len(ch.Runs) > 65535 {
					return "skipped-unencodable", nil // the run count field is 16 bits wide
				}
			}
			if len(cs) == 0 && e.ForceCookie {
				return "skipped-empty", nil // size-1 cannot encode zero chunks under the run-capable cookie
			}
			data := spec.EncodePortable(cs, e.ForceCookie)
			// self check of the encoder against the independent decoder
			back, used, err := spec.DecodePortable(data, false)
			if err != nil || used != len(data) || !spec.ToSet(back).Equal(src.M) {
				return "", &ev.Fail{API: "harness", Shape: "codec", What: fmt.Sprintf("independent codec does not round trip its own encoding (%v)", err)}
			}
			rb := roaring.New()
			api := decoderNames[idx[2]]
			rep, consumed, err := decode32(idx[2], rb, data)
			atomic.AddInt64(&rexecs, 1)
			if err != nil {
				return "", fail(api, "rejects-conformant", "%s rejects a spec-conformant stream (%s): %v", api, e.Name, err)
			}
			if rep >= 0 && rep != int64(len(data)) || consumed >= 0 && consumed != len(data) {
				return "", fail(api, "accounting", "%s on a conformant stream (%s): reported %d consumed %d of %d bytes", api, e.Name, rep, consumed, len(data))
			}
			// element list only (ground rule 2): non-canonical encodings need not Validate
			if got := rb.ToArray(); !sliceEq(got, src.M.Slice()) {
				return "", fail(api, "misread", "%s reads a spec-conformant stream (%s) as a different set: %d elements vs %d", api, e.Name, len(got), src.M.Card())
			}
			if got := extract.Of(rb); !got.Equal(src.M) {
				return "", fail(api, "misread", "%s reads a spec-conformant stream (%s) as a different set: %s", api, e.Name, diff32(got, src.M))
			}
			return e.Name, nil
		},
		Describe: func(idx []int) any {
			return map[string]any{"content": corpus[idx[0]].Name, "encoding": encs[idx[1]].Name, "decoder": decoderNames[idx[2]]}
		}}
	// chunk-count boundaries of the header: the size-minus-one field of the run-capable cookie (16 bits), the run-flag
	// bitset length (chunk counts not a multiple of 8), the offset-header threshold (4), up to all 65536 chunks
	counts := []int{1, 3, 4, 5, 7, 8, 9, 255, 256, 257, 65535, 65536}
	cencs := []int{len(subsetChoices()) + 0, len(subsetChoices()) + 1, len(subsetChoices()) + 2, len(subsetChoices()) + 6}
	var cexecs int64
	cb := &explore.Product{Name: "chunk-count boundaries x cookie / run choices x 5 decoders", Dims: []int{len(counts), len(cencs), len(decoderNames)}, Deadline: c.Budget(105, 1650), Execs: &cexecs,
		Run: func(idx []int) (string, *ev.Fail) {
			n, e := counts[idx[0]], encs[cencs[idx[1]]]
			m := model.New32()
			for k := 0; k < n; k++ {
				key := uint32(k)
				if n < 65535 && k == n-1 {
					key = 0xFFFF // the last chunk sits at the top of the key space
				}
				m.Add(key<<16 | uint32(k%7))
				if k%5 == 0 {
					m.AddRange(uint64(key)<<16|100, uint64(key)<<16|110)
				}
			}
			cs := spec.FromModel(m, e.Kind, e.Gran)
			data := spec.EncodePortable(cs, e.ForceCookie)
			rb := roaring.New()
			api := decoderNames[idx[2]]
			rep, consumed, err := decode32(idx[2], rb, data)
			atomic.AddInt64(&cexecs, 1)
			if err != nil {
				return "", fail(api, "rejects-conformant", "%s rejects a spec-conformant stream of %d chunks (%s): %v", api, n, e.Name, err)
			}
			if rep >= 0 && rep != int64(len(data)) || consumed >= 0 && consumed != len(data) {
				return "", fail(api, "accounting", "%s on a conformant stream of %d chunks (%s): reported %d consumed %d of %d bytes", api, n, e.Name, rep, consumed, len(data))
			}
			if got := extract.Of(rb); !got.Equal(m) {
				return "", fail(api, "misread", "%s reads a spec-conformant stream of %d chunks (%s) as a different set: %s", api, n, e.Name, diff32(got, m))
			}
			return e.Name, nil
		},
		Describe: func(idx []int) any {
			return map[string]any{"chunks": counts[idx[0]], "encoding": encs[cencs[idx[1]]].Name, "decoder": decoderNames[idx[2]]}
		}}
	// golden files written by other implementations
	repo := "/repo"
	if r := os.Getenv("VERIF_REPO"); r != "" {
		repo = r
	}
	golden := []string{repo + "/testdata/bitmapwithruns.bin", repo + "/testdata/bitmapwithoutruns.bin", repo + "/testfrozendata/arrays_only.portable", repo + "/testfrozendata/bitmaps_only.portable", repo + "/testfrozendata/mixed.portable", repo + "/testfrozendata/runs_only.portable"}
	gd := &explore.Product{Name: "golden files (Java/C) through both decoders", Dims: []int{len(golden), len(decoderNames)}, Deadline: c.Budget(110, 1700),
		Run: func(idx []int) (string, *ev.Fail) {
			data, err := os.ReadFile(golden[idx[0]])
			if err != nil || len(data) == 0 {
				return "missing", nil
			}
			cs, used, err := spec.DecodePortable(data, false)
			if err != nil || used != len(data) {
				return "", &ev.Fail{API: "harness", Shape: "golden", What: fmt.Sprintf("independent decoder cannot read golden file %s: %v (used %d of %d)", golden[idx[0]], err, used, len(data))}
			}
			want := spec.ToSet(cs)
			rb := roaring.New()
			if _, _, err := decode32(idx[1], rb, data); err != nil {
				return "", fail(decoderNames[idx[1]], "golden-error", "cannot read golden file %s: %v", golden[idx[0]], err)
			}
			if got := extract.Of(rb); !got.Equal(want) {
				return "", fail(decoderNames[idx[1]], "golden-misread", "golden file %s read differently: %s", golden[idx[0]], diff32(got, want))
			}
			return "ok", nil
		}}
	runScenarios(c, corpusReadback(c, "corpus construction: FromUnsafeBytes(ToBytes())", "ToBytes"), wr, rd, cb, gd)
}
