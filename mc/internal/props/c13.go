package props

import (
	"bytes"
	"fmt"
	"runtime"
	"sync/atomic"

	"github.com/RoaringBitmap/roaring/v2"
	"verifmc/internal/env"
	"verifmc/internal/ev"
	"verifmc/internal/explore"
	"verifmc/internal/extract"
	"verifmc/internal/model"
	"verifmc/internal/shapes"
	"verifmc/internal/spec"
)

func init() { Drivers["C13"] = Driver{Level: "model_checking", Run: runC13} }

//go:noinline
func gcNow() {
	runtime.GC()
	runtime.GC()
}

// frozenWriters checks that the three writers agree and the byte accounting; returns the bytes.
func frozenWriters(b *roaring.Bitmap, execs *int64) ([]byte, *ev.Fail) {
	need := int(b.GetFrozenSizeInBytes())
	fz, err := b.Freeze()
	if err != nil {
		return nil, fail("Freeze", "error", "Freeze failed: %v", err)
	}
	if len(fz) != need {
		return nil, fail("Freeze", "accounting", "Freeze wrote %d bytes, GetFrozenSizeInBytes()=%d", len(fz), need)
	}
	// destination buffers: length need+extra, carved out of a larger arena so that the slice has spare capacity
	// (slack) behind its length - "too small" is about the length, and nothing behind the length may be written
	for _, extra := range []int{-need, -1, 0, 1, 4096} {
		if need+extra < 0 || (extra == -need && need < 2) {
			continue
		}
		for _, slack := range []int{0, 1, need + 8} {
			arena := shapes.Aligned(bytes.Repeat([]byte{0x5A}, need+extra+slack))
			buf := arena[:need+extra]
			n, err := b.FreezeTo(buf)
			atomic.AddInt64(execs, 1)
			if extra < 0 {
				if err == nil {
					return nil, fail("FreezeTo", "no-error", "FreezeTo into a buffer of %d bytes with capacity %d (need %d) returned no error", need+extra, need+extra+slack, need)
				}
				for i, x := range arena {
					if x != 0x5A {
						return nil, fail("FreezeTo", "wrote-on-error", "FreezeTo into a too small buffer (len %d, cap %d, need %d) wrote byte %d", need+extra, need+extra+slack, need, i)
					}
				}
				continue
			}
			if err != nil || n != need {
				return nil, fail("FreezeTo", "accounting", "FreezeTo(buffer %d) = (%d,%v), need %d", need+extra, n, err, need)
			}
			if !bytes.Equal(buf[:need], fz) {
				return nil, fail("FreezeTo", "differs", "FreezeTo(buffer %d) bytes differ from Freeze", need+extra)
			}
			for i := need; i < len(arena); i++ {
				if arena[i] != 0x5A {
					return nil, fail("FreezeTo", "overrun", "FreezeTo wrote beyond its %d bytes (offset %d; buffer len %d cap %d)", need, i, need+extra, need+extra+slack)
				}
			}
		}
	}
	var bb bytes.Buffer
	n, err := b.WriteFrozenTo(&bb)
	atomic.AddInt64(execs, 1)
	if err != nil || n != need || !bytes.Equal(bb.Bytes(), fz) {
		return nil, fail("WriteFrozenTo", "differs", "WriteFrozenTo = (%d,%v) and bytes equal=%v; need %d", n, err, bytes.Equal(bb.Bytes(), fz), need)
	}
	return fz, nil
}

func runC13(c *Ctx) {
	if c.Replay != nil && c.Replay.Scenario == "view retains buffer" {
		replayCaged(c, "C13retain")
		return
	}
	q := c.Quick()
	corpus := corpus32(q)
	var execs, wexecs, sexecs int64
	p1 := &explore.Product{Name: "three frozen writers x buffer sizes + layout + view", Dims: []int{len(corpus)}, Deadline: c.Budget(40, 600), Execs: &execs,
		Run: func(idx []int) (string, *ev.Fail) {
			src := corpus[idx[0]].Build()
			defer runtime.KeepAlive(src)
			fz, f := frozenWriters(src.B, &execs)
			if f != nil {
				return "", f
			}
			// layout per the CRoaring description, decoded independently
			cs, err := spec.DecodeFrozen(fz)
			if err != nil {
				return "", fail("Freeze", "layout", "frozen bytes violate the CRoaring frozen layout: %v", err)
			}
			if got := spec.ToSet(cs); !got.Equal(src.M) {
				return "", fail("Freeze", "layout-content", "frozen bytes decode (independently) to a different set: %s", diff32(got, src.M))
			}
			// chunk kinds in the frozen bytes are the kinds the bitmap holds
			v := roaring.VerifViewOf(src.B)
			for i := range cs {
				if i < len(v.Chunks) && cs[i].Kind != int(v.Chunks[i].Kind) {
					return "", fail("Freeze", "layout-kind", "chunk %d frozen as kind %d but held as kind %d", i, cs[i].Kind, v.Chunks[i].Kind)
				}
			}
			for vi, view := range []func(*roaring.Bitmap, []byte) error{(*roaring.Bitmap).FrozenView, (*roaring.Bitmap).MustFrozenView} {
				buf := shapes.Aligned(fz)
				rb := roaring.New()
				name := []string{"FrozenView", "MustFrozenView"}[vi]
				if err := view(rb, buf); err != nil {
					return "", fail(name, "error", "%s of the library's own frozen bytes failed: %v", name, err)
				}
				atomic.AddInt64(&execs, 1)
				if !rb.Equals(src.B) || !src.B.Equals(rb) {
					return "", fail(name, "equals", "%s is not Equal to the original", name)
				}
				if f := checkValid32(name, rb); f != nil {
					return "", f
				}
				if vi == 0 {
					if _, f := queryBattery(rb, src.M); f != nil {
						f.What = "on a frozen view: " + f.What
						return "", f
					}
					if _, f := drains(rb, src.M); f != nil {
						f.What = "on a frozen view: " + f.What
						return "", f
					}
				}
				if !bytes.Equal(buf, fz) {
					return "", fail(name, "buffer-written", "%s or read-only use wrote to the caller's buffer", name)
				}
			}
			return extract.Kinds(v), nil
		}, Describe: func(idx []int) any { return corpus[idx[0]].Name }}
	// WriteFrozenTo under writer failures
	p2 := &explore.Product{Name: "WriteFrozenTo x writer failure offsets", Dims: []int{len(corpus)}, Deadline: c.Budget(60, 900), Execs: &wexecs,
		Run: func(idx []int) (string, *ev.Fail) {
			src := corpus[idx[0]].Build()
			defer runtime.KeepAlive(src)
			fz, err := src.B.Freeze()
			if err != nil {
				return "", fail("Freeze", "error", "%v", err)
			}
			offs := map[int]struct{}{}
			if len(fz) <= 600 {
				for k := 0; k < len(fz); k++ {
					offs[k] = struct{}{}
				}
			} else {
				for k := 0; k < 16; k++ {
					offs[k] = struct{}{}
				}
				tail := 5*len(src.M.Keys()) + 12
				for k := len(fz) - tail; k < len(fz); k++ {
					if k >= 0 {
						offs[k] = struct{}{}
					}
				}
				for k := 16; k < len(fz); k += 1023 {
					offs[k] = struct{}{}
				}
				for k := 8191; k < len(fz); k += 8192 {
					offs[k], offs[k+1] = struct{}{}, struct{}{}
				}
			}
			for k := range offs {
				if k >= len(fz) {
					continue
				}
				for mode := 0; mode < 2; mode++ {
					w := &env.FailWriter{FailAt: k, Mode: mode}
					n, err := src.B.WriteFrozenTo(w)
					atomic.AddInt64(&wexecs, 1)
					if err == nil {
						return "", fail("WriteFrozenTo", "swallowed-error", "WriteFrozenTo returned nil error (n=%d) although the writer failed at offset %d of %d", n, k, len(fz))
					}
					if n > k {
						return "", fail("WriteFrozenTo", "overcount", "WriteFrozenTo reported %d bytes, the writer accepted %d", n, k)
					}
				}
			}
			return fmt.Sprint(len(offs) % 3), nil
		}, Describe: func(idx []int) any { return corpus[idx[0]].Name }}
	// views survive copying writes with garbage collections interleaved
	var sub []recipe
	seen := map[string]bool{}
	for _, r := range corpus {
		b := r.Build()
		defer runtime.KeepAlive(b)
		k := extract.Kinds(roaring.VerifViewOf(b.B))
		if len(k) > 5 {
			k = k[:5]
		}
		if !seen[k] && b.Bytes == nil {
			seen[k] = true
			sub = append(sub, r)
		}
	}
	core := func(m *model.Set32) []op32 {
		mn, _ := m.Min()
		mx, _ := m.Max()
		k := uint64(mn >> 16 << 16)
		return []op32{opAdd(mn + 1), opRemove(mn), opRemove(mx), opAdd(0xFFFFFFFF), opAddRange(k, k+65536), opRemoveRange(k, k+65536), opFlip(k+1, k+70000), opRunOptimize(), opClone()}
	}
	p3 := &explore.Product{Name: "frozen view x mutation sequences <= 2 with GC interleaved", Dims: []int{len(sub)}, Deadline: c.Budget(110, 1500), Execs: &sexecs,
		Run: func(idx []int) (string, *ev.Fail) {
			src := sub[idx[0]].Build()
			defer runtime.KeepAlive(src)
			if src.M.IsEmpty() {
				return "empty", nil
			}
			fz, _ := src.B.Freeze()
			ops := core(src.M)
			run := func(seq []op32) *ev.Fail {
				buf := shapes.Aligned(fz)
				rb := roaring.New()
				if err := rb.FrozenView(buf); err != nil {
					return fail("FrozenView", "error", "%v", err)
				}
				w := &W32{B: rb, M: src.M.Clone()}
				names := ""
				for _, op := range seq {
					names += op.Name + "; GC; "
					if _, f := op.F(w); f != nil {
						return f
					}
					gcNow()
					if f := checkState32("FrozenView; "+names, w.B, w.M, true); f != nil {
						return f
					}
					if f := checkValid32("FrozenView; "+names, w.B); f != nil {
						return f
					}
				}
				if !bytes.Equal(buf, fz) {
					return fail("FrozenView", "buffer-written", "mutating a frozen view (%s) wrote to the caller's buffer", names)
				}
				runtime.KeepAlive(buf)
				atomic.AddInt64(&sexecs, 1)
				return nil
			}
			for _, a := range ops {
				if f := run([]op32{a}); f != nil {
					return "", f
				}
				for _, b2 := range ops {
					if f := run([]op32{a, b2}); f != nil {
						return "", f
					}
				}
			}
			return "ok", nil
		}, Describe: func(idx []int) any { return sub[idx[0]].Name }}
	c.R.Assume("GC events are explicit (runtime.GC twice) and the process runs with GODEBUG=clobberfree=1 so that a freed object is overwritten deterministically")
	// views of frozen bytes written by ANOTHER implementation of the format: chunk forms the library itself would not
	// choose (a bitmap chunk at the 4096 / 4097 threshold, an array chunk of 4096 values, a run chunk that an array
	// would beat). Where FrozenView accepts the bytes and the bitmap validates, it is a bitmap like any other: the
	// three writers must agree on it and reproduce the bytes it was loaded from.
	var fexecs int64
	foreign := foreignFrozen()
	p4 := &explore.Product{Name: "three frozen writers on views of foreign frozen bytes", Dims: []int{len(foreign)}, Deadline: c.Budget(150, 1700), Execs: &fexecs,
		Run: func(idx []int) (string, *ev.Fail) {
			fc := foreign[idx[0]]
			data := spec.EncodeFrozen(fc.Chunks)
			buf := shapes.Aligned(data)
			rb := roaring.New()
			defer runtime.KeepAlive(buf)
			if err := rb.FrozenView(buf); err != nil {
				return "rejected", nil // C10 decides what may be rejected
			}
			if rb.Validate() != nil {
				return "not-valid", nil
			}
			want := spec.ToSet(fc.Chunks)
			if got := extract.Of(rb); !got.Equal(want) {
				return "", fail("FrozenView", "foreign-content", "FrozenView of foreign frozen bytes (%s) validates but holds a different set: %s", fc.Name, diff32(got, want))
			}
			fz, f := frozenWriters(rb, &fexecs)
			if f != nil {
				f.What = "on a view of foreign frozen bytes (" + fc.Name + "): " + f.What
				return "", f
			}
			if !bytes.Equal(fz, data) {
				return "", fail("Freeze", "foreign-reproduce", "Freeze of a view of foreign frozen bytes (%s) differs from the bytes the view was loaded from", fc.Name)
			}
			if !bytes.Equal(buf, data) {
				return "", fail("FrozenView", "buffer-written", "freezing a view wrote to the caller's buffer")
			}
			return "accepted", nil
		}, Describe: func(idx []int) any { return foreign[idx[0]].Name }}
	runScenarios(c, corpusReadback(c, "corpus construction: FrozenView(Freeze())", "Freeze"), p1, p2, p3, p4)
	if c.Replay == nil {
		// a live view must keep validating and keep its contents when the view is the only thing that still refers to
		// the buffer. Decided in the subprocess cage: check.sh sets GODEBUG=clobberfree=1 for this property, so a freed
		// buffer is overwritten at once and the runtime itself may stop the process ("found pointer to free object").
		runCagedFamily(c, "C13retain", "view retains buffer", "a frozen view alone keeps its buffer reachable: the caller drops the buffer, GC runs, allocations follow (subprocess cage)")
	}
}

// viewOnly returns a frozen view of b whose buffer is referenced by nothing but the view.
//
//go:noinline
func viewOnly(b *roaring.Bitmap, must bool) (*roaring.Bitmap, int, error) {
	fz, err := b.Freeze()
	if err != nil {
		return nil, 0, err
	}
	buf := shapes.Aligned(fz)
	v := roaring.New()
	if must {
		err = v.MustFrozenView(buf)
	} else {
		err = v.FrozenView(buf)
	}
	return v, len(buf), err
}

func init() {
	CageFamilies["C13retain"] = func(tier string) (int, func(id int) string) {
		// (not the closure corpus: every cage worker builds its own case list, and must do so well within the watchdog)
		q := tier != "thorough"
		corpus := append(append(l1Pool(1, q), mixedPool(q)...), l3Pool(true)...)
		return 2 * len(corpus), func(id int) string {
			src := corpus[id/2].Build()
			defer runtime.KeepAlive(src)
			if src.M.Card() > 1<<22 {
				return "ok skipped-large"
			}
			name := []string{"FrozenView", "MustFrozenView"}[id%2]
			v, size, err := viewOnly(src.B, id%2 == 1)
			if err != nil {
				return fmt.Sprintf("VIOL %s(Freeze()) failed [%s]: %v", name, corpus[id/2].Name, err)
			}
			var junk [][]byte
			for i := 0; i < 3; i++ {
				runtime.GC()
				b := make([]byte, size)
				for j := range b {
					b[j] = 0xA5
				}
				junk = append(junk, b)
			}
			defer runtime.KeepAlive(junk)
			if got := extract.Of(v); !got.Equal(src.M) {
				return fmt.Sprintf("VIOL after the caller dropped the buffer and the collector ran, the %s no longer holds its contents [%s]: %s", name, corpus[id/2].Name, diff32(got, src.M))
			}
			if err := v.Validate(); err != nil {
				return fmt.Sprintf("VIOL after the caller dropped the buffer and the collector ran, the %s fails Validate() [%s]: %v", name, corpus[id/2].Name, err)
			}
			return "ok"
		}
	}
}

type foreignCase struct {
	Name   string
	Chunks []spec.Chunk
}

// foreignFrozen: chunk lists another implementation may legitimately freeze.
func foreignFrozen() []foreignCase {
	stripe := func(n, step int) []uint16 {
		vs := make([]uint16, n)
		for i := range vs {
			vs[i] = uint16(i * step)
		}
		return vs
	}
	bmOf := func(key uint16, vs []uint16) spec.Chunk {
		w := make([]uint64, 1024)
		for _, v := range vs {
			w[v/64] |= 1 << (v % 64)
		}
		return spec.Chunk{Key: key, Kind: spec.KBitmap, Words: w, Card: len(vs)}
	}
	arr := func(key uint16, vs []uint16) spec.Chunk {
		return spec.Chunk{Key: key, Kind: spec.KArray, Values: vs, Card: len(vs)}
	}
	run := func(key uint16, rs ...[2]uint16) spec.Chunk { return spec.Chunk{Key: key, Kind: spec.KRun, Runs: rs} }
	var out []foreignCase
	for _, n := range []int{4095, 4096, 4097, 5000, 65535} {
		step := 3
		if n > 20000 {
			step = 1
		}
		out = append(out,
			foreignCase{fmt.Sprintf("bitmap chunk with %d values", n), []spec.Chunk{bmOf(1, stripe(n, step))}},
			foreignCase{fmt.Sprintf("bitmap chunk with %d values between an array and a run chunk", n), []spec.Chunk{arr(0, []uint16{1, 5, 65535}), bmOf(1, stripe(n, step)), run(2, [2]uint16{10, 5000})}},
		)
	}
	for _, n := range []int{1, 4095, 4096} {
		out = append(out, foreignCase{fmt.Sprintf("array chunk with %d values", n), []spec.Chunk{arr(7, stripe(n, 5)), run(9, [2]uint16{0, 65535})}})
	}
	out = append(out,
		foreignCase{"run chunk of one short run (an array would be smaller)", []spec.Chunk{run(3, [2]uint16{7, 0})}},
		foreignCase{"run chunk of 3000 runs (a bitmap would be smaller)", []spec.Chunk{func() spec.Chunk {
			var rs [][2]uint16
			for i := 0; i < 3000; i++ {
				rs = append(rs, [2]uint16{uint16(i * 20), 3})
			}
			return run(4, rs...)
		}()}},
		foreignCase{"two bitmap chunks, two array chunks, two run chunks interleaved", []spec.Chunk{bmOf(0, stripe(5000, 2)), arr(1, stripe(10, 7)), run(2, [2]uint16{5, 10}, [2]uint16{100, 0}), bmOf(3, stripe(4096, 4)), arr(4, stripe(4096, 2)), run(5, [2]uint16{0, 65535})}},
	)
	return out
}
