package props

import (
	"fmt"
	"runtime/debug"
	"sync/atomic"

	"github.com/RoaringBitmap/roaring/v2/roaring64"
	"verifmc/internal/env"
	"verifmc/internal/ev"
	"verifmc/internal/explore"
	"verifmc/internal/extract"
	"verifmc/internal/model"
)

// c08Scenario64: the 64-bit zero-copy loader. roaring64.FromUnsafeBytes builds its buckets (32-bit bitmaps) over the
// caller's bytes; roaring64.CloneCopyOnWriteContainers promises the same detachment as the 32-bit call. Enumerated:
// pool state x a step applied to the view before detaching x which bitmap is detached and observed (the view, a
// clone, a union with a partner) x the fate of the buffer afterwards (scribbled / unmapped). The buffer is read-only
// between guard pages until it is scribbled, so a write through the view faults.
func c08Scenario64(c *Ctx) explore.Scenario {
	pool := pool64(true)
	type step struct {
		name string
		f    func(v *roaring64.Bitmap, m *model.Set64)
	}
	steps := []step{
		{"(none)", func(v *roaring64.Bitmap, m *model.Set64) {}},
		{"Add(first absent of bucket 0)", func(v *roaring64.Bitmap, m *model.Set64) {
			for x := uint64(77); x < 300; x++ {
				if !m.Contains(x) {
					v.Add(x)
					m.Add(x)
					return
				}
			}
		}},
		{"Remove(minimum)", func(v *roaring64.Bitmap, m *model.Set64) {
			if vs := m.From(0, 1); len(vs) == 1 {
				v.Remove(vs[0])
				m.Remove(vs[0])
			}
		}},
		{"RunOptimize", func(v *roaring64.Bitmap, m *model.Set64) { v.RunOptimize() }},
		{"Flip(5, 2^32+5)", func(v *roaring64.Bitmap, m *model.Set64) { v.Flip(5, 1<<32+5); m.FlipRange(5, 1<<32+5) }},
	}
	derive := []string{"the view itself", "Clone(view)", "Or(view, partner)", "partner.Or(view)"}
	fates := []string{"scribbled", "unmapped"}
	var n int64
	return &explore.Product{Name: "64-bit: FromUnsafeBytes x step x detached bitmap x fate of the buffer", Dims: []int{len(pool), len(steps), len(derive), len(fates)}, Deadline: c.Budget(119, 1795), Execs: &n,
		Run: func(idx []int) (string, *ev.Fail) {
			debug.SetPanicOnFault(true)
			atomic.AddInt64(&n, 1)
			src := pool[idx[0]].Build()
			data, err := src.B.ToBytes()
			if err != nil {
				return "", fail("ToBytes", "error", "%v", err)
			}
			if len(data) > 1<<22 {
				return "skipped-large", nil
			}
			g := env.NewGuarded(len(data), true)
			freed := false
			defer func() {
				if !freed {
					g.ReadOnly(false)
					g.Free()
				}
			}()
			copy(g.Data, data)
			g.ReadOnly(true)
			view := roaring64.New()
			if _, err := view.FromUnsafeBytes(g.Data); err != nil {
				return "", fail("FromUnsafeBytes", "error", "FromUnsafeBytes of own bytes failed: %v", err)
			}
			m := src.M.Clone()
			st := steps[idx[1]]
			st.f(view, m)
			desc := fmt.Sprintf("FromUnsafeBytes(%s); %s", pool[idx[0]].Name, st.name)
			if got := extract.Of64(view); !got.Equal(m) {
				return "", fail("FromUnsafeBytes", "content", "after %s the view holds the wrong set: %s", desc, diff64(got, m))
			}
			target, tm := view, m
			partner, pm := roaring64.BitmapOf(3, 1<<32+3, 9<<32), model.New64()
			for _, x := range []uint64{3, 1<<32 + 3, 9 << 32} {
				pm.Add(x)
			}
			switch idx[2] {
			case 1:
				target = view.Clone()
			case 2:
				target, tm = roaring64.Or(view, partner), model.Or64(m, pm)
			case 3:
				partner.Or(view)
				target, tm = partner, model.Or64(m, pm)
			}
			target.CloneCopyOnWriteContainers()
			// the buffer must still be intact, then it goes away
			for i := range data {
				if g.Data[i] != data[i] {
					return "", fail("FromUnsafeBytes", "buffer-written", "after %s the caller's buffer changed at byte %d", desc, i)
				}
			}
			if fates[idx[3]] == "scribbled" {
				g.ReadOnly(false)
				for i := range g.Data {
					g.Data[i] = 0xFF
				}
			} else {
				g.ReadOnly(false)
				g.Free()
				freed = true
			}
			if got := extract.Of64(target); !got.Equal(tm) {
				return "", fail("CloneCopyOnWriteContainers", "still-depends-on-buffer", "after %s, CloneCopyOnWriteContainers on %s and a %s buffer, the bitmap no longer holds its contents: %s", desc, derive[idx[2]], fates[idx[3]], diff64(got, tm))
			}
			if err := target.Validate(); err != nil {
				return "", fail("CloneCopyOnWriteContainers", "still-depends-on-buffer", "after %s, CloneCopyOnWriteContainers on %s and a %s buffer: Validate() = %v", desc, derive[idx[2]], fates[idx[3]], err)
			}
			return derive[idx[2]], nil
		},
		Describe: func(idx []int) any {
			return map[string]any{"state": pool[idx[0]].Name, "step": steps[idx[1]].name, "detached": derive[idx[2]], "buffer": fates[idx[3]]}
		}}
}
