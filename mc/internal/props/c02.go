package props

import (
	"fmt"

	"verifmc/internal/ev"
	"verifmc/internal/explore"
	"verifmc/internal/shapes"
)

func init() { Drivers["C02"] = Driver{Level: "model_checking", Run: runC02} }

func bfs32(name string, ops []op32, maxDepth int) *explore.BFS[*W32] {
	return &explore.BFS[*W32]{
		Name: name, New: newW32, Ops: ops, MaxDepth: maxDepth,
		Key:   func(w *W32) string { return key32(w.B, w.M) },
		Check: func(w *W32) *ev.Fail { return checkState32("history", w.B, w.M, true) },
	}
}

// s1Fix: one chunk, an alphabet whose arguments cut the chunk into 8 cells, so
// the closure is finite: all histories of any length.
func s1FixOps(key uint16) []op32 {
	base := uint64(key) << 16
	var ops []op32
	for _, p := range []uint32{0, 63, 64, 65535} {
		x := uint32(base) | p
		ops = append(ops, opAdd(x), opCheckedAdd(x), opRemove(x), opCheckedRemove(x))
	}
	ops = append(ops, opAddInt(uint32(base)|64))
	s := atomVals(shapes.S4095, key)
	ops = append(ops, opAddMany("s4095", s), opAddMany("s4095rev", reversed(s)))
	// a 4-value run and its two ends: a run chunk at the run/array size boundary (2+4 < 2*4, but not < 2*3)
	for _, p := range []uint32{100, 103} {
		x := uint32(base) | p
		ops = append(ops, opRemove(x), opCheckedAdd(x))
	}
	for _, r := range [][2]uint64{{1, 63}, {20000, 30000}, {0, 65536}, {63, 65}, {100, 104}} {
		ops = append(ops, opAddRange(base+r[0], base+r[1]), opRemoveRange(base+r[0], base+r[1]), opFlip(base+r[0], base+r[1]))
	}
	ops = append(ops, maintenanceOps()...)
	return ops
}

// s1Wide: one chunk, the full boundary alphabet; depth bounded.
func s1WideOps(key uint16, quick bool) []op32 {
	base := uint64(key) << 16
	pts := []uint32{0, 1, 62, 63, 64, 65, 4095, 4096, 4097, 32767, 32768, 65534, 65535}
	var ops []op32
	for _, p := range pts {
		x := uint32(base) | p
		ops = append(ops, opAdd(x), opCheckedRemove(x))
		if !quick {
			ops = append(ops, opCheckedAdd(x), opRemove(x))
		}
	}
	for _, a := range []int{shapes.S4095, shapes.S1000a, shapes.S1000b, shapes.R2047, shapes.R1} {
		ops = append(ops, opAddMany(shapes.Atoms[a].Name, atomVals(a, key)))
	}
	ops = append(ops, opAddMany("r2047rev", reversed(atomVals(shapes.R2047, key))))
	rp := []uint64{0, 1, 63, 64, 65, 4096, 20000, 30000, 32768, 40002, 48191, 65472, 65535, 65536}
	if quick {
		rp = []uint64{0, 1, 64, 4096, 20000, 30000, 48191, 65535, 65536}
	}
	for i, a := range rp {
		for _, b := range rp[i+1:] {
			ops = append(ops, opAddRange(base+a, base+b), opRemoveRange(base+a, base+b), opFlip(base+a, base+b))
		}
	}
	ops = append(ops, maintenanceOps()...)
	return ops
}

// s2: several adjacent chunks plus the top of the key space; ranges cross chunk edges and end at 2^32.
func s2Ops(quick bool) []op32 {
	var ops []op32
	pts := []uint32{0, 65535, 65536, 131071, 131072, 196607, 0xFFFE0000, 0xFFFEFFFF, 0xFFFF0000, 0xFFFFFFFF}
	for _, x := range pts {
		ops = append(ops, opAdd(x), opCheckedRemove(x))
	}
	// bulk: values interleaved between chunks (AddMany's same-chunk fast path keys on the previous element)
	ops = append(ops, opAddMany("interleaved", []uint32{1, 65537, 2, 65538, 131073, 3, 0xFFFF0001, 4}))
	ops = append(ops, opAddMany("s4095@1", atomVals(shapes.S4095, 1)))
	rp := []uint64{0, 65535, 65536, 65537, 131072, 196607, 196608}
	top := []uint64{0xFFFE0000, 0xFFFEFFFF, 0xFFFF0000, 0xFFFFFFFF, 1 << 32}
	add := func(a, b uint64) {
		ops = append(ops, opAddRange(a, b), opRemoveRange(a, b), opFlip(a, b))
	}
	for i, a := range rp {
		for _, b := range rp[i+1:] {
			add(a, b)
		}
	}
	for i, a := range top {
		for _, b := range top[i+1:] {
			add(a, b)
		}
	}
	// removals that span the empty middle of the key space (cheap; additions would create 65k chunks)
	ops = append(ops, opRemoveRange(65536, 1<<32), opRemoveRange(1, 0xFFFFFFFF), opRemoveRange(0, 1<<32), opRemoveRange(70000, 1<<33))
	ops = append(ops, maintenanceOps()...)
	return ops
}

// s3: many tiny chunks (linear / binary key search switch at 16, galloping), point and range ops at chosen keys.
func s3Ops(n, stride int) []op32 {
	var all []uint32
	for i := 0; i < n; i++ {
		all = append(all, uint32(10+i*stride)<<16|7)
	}
	ops := []op32{opAddMany(fmt.Sprintf("%dchunks/stride%d", n, stride), all)}
	keys := []int{0, 9, 10, 10 + stride/2 + 1, 10 + stride, 10 + (n/2)*stride, 10 + (n/2)*stride + 1, 10 + (n-2)*stride, 10 + (n-1)*stride, 10 + n*stride, 0xFFFF}
	seen := map[int]bool{}
	for _, k := range keys {
		if seen[k] || k > 0xFFFF {
			continue
		}
		seen[k] = true
		x := uint32(k)<<16 | 7
		ops = append(ops, opAdd(x), opCheckedAdd(x+1), opRemove(x), opCheckedRemove(x))
		fe := uint64(x) + 65536
		if fe > 1<<32 {
			fe = 1 << 32 // Flip documents a panic beyond 2^32: outside the alphabet
		}
		ops = append(ops, opRemoveRange(uint64(k)<<16, uint64(k+stride+1)<<16), opFlip(uint64(x), fe))
	}
	ops = append(ops, opRunOptimize(), opClone(), opSetCOW(true))
	return ops
}

func runC02(c *Ctx) {
	q := c.Quick()
	var scs []explore.Scenario
	f0 := bfs32("S1fix@0", s1FixOps(0), 0)
	fF := bfs32("S1fix@0xFFFF", s1FixOps(0xFFFF), 0)
	w0 := bfs32("S1wide@1", s1WideOps(1, q), 2)
	s2 := bfs32("S2multi", s2Ops(q), 2)
	if q {
		f0.MaxDepth, fF.MaxDepth = 4, 3
		f0.Deadline, fF.Deadline, w0.Deadline, s2.Deadline = c.Budget(40, 0), c.Budget(60, 0), c.Budget(80, 0), c.Budget(100, 0)
	} else {
		w0.MaxDepth, s2.MaxDepth = 3, 4
		f0.Deadline, fF.Deadline, w0.Deadline, s2.Deadline = c.Budget(0, 500), c.Budget(0, 800), c.Budget(0, 1000), c.Budget(0, 1200)
	}
	scs = append(scs, f0, fF, w0, s2)
	for _, p := range [][2]int{{15, 1}, {16, 2}, {17, 3}, {33, 5}, {65, 1}} {
		s3 := bfs32(fmt.Sprintf("S3keys/n%d/s%d", p[0], p[1]), s3Ops(p[0], p[1]), 3)
		if q {
			s3.MaxDepth = 2
		}
		s3.Deadline = c.Budget(115, 1400)
		scs = append(scs, s3)
	}
	pb := pairBFS("two owners sharing every chunk: each equals its own history", q, 3, false)
	pb.Deadline = c.Budget(119, 1500)
	scs = append(scs, pb)
	c.R.Assume("values outside the alphabets are represented by one value per branch condition in the code (DESIGN.md section 3)")
	runScenarios(c, scs...)
}
