package props

import (
	"fmt"

	"verifmc/internal/ev"
	"verifmc/internal/explore"
	"verifmc/internal/shapes"
)

type op32 = explore.Op[*W32]

func mk(name string, f func(w *W32) (string, *ev.Fail)) op32 { return op32{Name: name, F: f} }

func opAdd(x uint32) op32 {
	return mk(fmt.Sprintf("Add(%d)", x), func(w *W32) (string, *ev.Fail) { w.B.Add(x); w.M.Add(x); return "", nil })
}
func opAddInt(x uint32) op32 {
	return mk(fmt.Sprintf("AddInt(%d)", x), func(w *W32) (string, *ev.Fail) { w.B.AddInt(int(x)); w.M.Add(x); return "", nil })
}
func opCheckedAdd(x uint32) op32 {
	n := fmt.Sprintf("CheckedAdd(%d)", x)
	return mk(n, func(w *W32) (string, *ev.Fail) {
		got := w.B.CheckedAdd(x)
		want := w.M.Add(x)
		if got != want {
			return "", fail("CheckedAdd", "return", "%s returned %v, membership changed: %v", n, got, want)
		}
		return fmt.Sprint(got), nil
	})
}
func opRemove(x uint32) op32 {
	return mk(fmt.Sprintf("Remove(%d)", x), func(w *W32) (string, *ev.Fail) { w.B.Remove(x); w.M.Remove(x); return "", nil })
}
func opCheckedRemove(x uint32) op32 {
	n := fmt.Sprintf("CheckedRemove(%d)", x)
	return mk(n, func(w *W32) (string, *ev.Fail) {
		got := w.B.CheckedRemove(x)
		want := w.M.Remove(x)
		if got != want {
			return "", fail("CheckedRemove", "return", "%s returned %v, membership changed: %v", n, got, want)
		}
		return fmt.Sprint(got), nil
	})
}
func opAddRange(a, b uint64) op32 {
	return mk(fmt.Sprintf("AddRange(%d,%d)", a, b), func(w *W32) (string, *ev.Fail) { w.B.AddRange(a, b); w.M.AddRange(a, b); return "", nil })
}
func opRemoveRange(a, b uint64) op32 {
	return mk(fmt.Sprintf("RemoveRange(%d,%d)", a, b), func(w *W32) (string, *ev.Fail) { w.B.RemoveRange(a, b); w.M.RemoveRange(a, b); return "", nil })
}
func opFlip(a, b uint64) op32 {
	return mk(fmt.Sprintf("Flip(%d,%d)", a, b), func(w *W32) (string, *ev.Fail) { w.B.Flip(a, b); w.M.FlipRange(a, b); return "", nil })
}
func opAddMany(name string, vs []uint32) op32 {
	return mk("AddMany("+name+")", func(w *W32) (string, *ev.Fail) {
		cp := append([]uint32(nil), vs...)
		w.B.AddMany(cp)
		for i, v := range vs {
			if cp[i] != v {
				return "", fail("AddMany", "argmodified", "AddMany modified its argument slice at %d", i)
			}
			w.M.Add(v)
		}
		return "", nil
	})
}
func opClear() op32 {
	return mk("Clear()", func(w *W32) (string, *ev.Fail) {
		w.B.Clear()
		w.M = w.M.Clone()
		w.M.RemoveRange(0, 1<<32)
		return "", nil
	})
}
func opRunOptimize() op32 {
	return mk("RunOptimize()", func(w *W32) (string, *ev.Fail) { w.B.RunOptimize(); return "", nil })
}
func opClone() op32 {
	return mk("Clone()", func(w *W32) (string, *ev.Fail) { w.B = w.B.Clone(); return "", nil })
}
func opCloneCOW() op32 {
	return mk("CloneCopyOnWriteContainers()", func(w *W32) (string, *ev.Fail) { w.B.CloneCopyOnWriteContainers(); return "", nil })
}
func opSetCOW(v bool) op32 {
	return mk(fmt.Sprintf("SetCopyOnWrite(%v)", v), func(w *W32) (string, *ev.Fail) { w.B.SetCopyOnWrite(v); return "", nil })
}

// atomVals returns the atom's values placed in chunk key.
func atomVals(atom int, key uint16) []uint32 {
	vs := shapes.Atoms[atom].Values()
	for i := range vs {
		vs[i] |= uint32(key) << 16
	}
	return vs
}

func reversed(vs []uint32) []uint32 {
	o := make([]uint32, len(vs))
	for i, v := range vs {
		o[len(vs)-1-i] = v
	}
	return o
}

func maintenanceOps() []op32 {
	return []op32{opClear(), opRunOptimize(), opClone(), opCloneCOW(), opSetCOW(true), opSetCOW(false)}
}
