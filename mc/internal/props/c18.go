package props

import (
	"bytes"
	"encoding/base64"
	"encoding/binary"
	"fmt"
	"runtime/debug"
	"strings"
	"sync"
	"sync/atomic"
	"time"

	"github.com/RoaringBitmap/roaring/v2/roaring64"
	"verifmc/internal/env"
	"verifmc/internal/ev"
	"verifmc/internal/explore"
	"verifmc/internal/extract"
	"verifmc/internal/shapes"
)

func init() {
	Drivers["C18"] = Driver{Level: "model_checking", Run: runC18}
	CageFamilies["C18damage"] = c18Family
}

var decoders64 = []string{"ReadFrom", "FromUnsafeBytes", "UnmarshalBinary", "FromBase64"}

func decode64(d int, rb *roaring64.Bitmap, data []byte, ch *env.Chooser) (reported int64, consumed int, err error) {
	switch d {
	case 0:
		withTrailer := append(append([]byte(nil), data...), 0xEE, 0xEE, 0xEE)
		r := &env.ScriptReader{Data: withTrailer, C: ch}
		n, e := rb.ReadFrom(r)
		return n, r.Delivered, e
	case 1:
		n, e := rb.FromUnsafeBytes(shapes.Aligned(data))
		return n, -1, e
	case 2:
		return -1, -1, rb.UnmarshalBinary(append([]byte(nil), data...))
	default:
		n, e := rb.FromBase64(base64.StdEncoding.EncodeToString(data))
		return n, -1, e
	}
}

func writers64(b *roaring64.Bitmap) ([]byte, *ev.Fail) {
	var buf bytes.Buffer
	n, err := b.WriteTo(&buf)
	if err != nil {
		return nil, fail("WriteTo", "error", "roaring64 WriteTo failed: %v", err)
	}
	data := buf.Bytes()
	if int64(len(data)) != n || uint64(len(data)) != b.GetSerializedSizeInBytes() {
		return nil, fail("WriteTo", "accounting", "roaring64 WriteTo wrote %d bytes, returned %d, GetSerializedSizeInBytes()=%d", len(data), n, b.GetSerializedSizeInBytes())
	}
	if tb, err := b.ToBytes(); err != nil || !bytes.Equal(tb, data) {
		return nil, fail("ToBytes", "differs", "roaring64 ToBytes differs from WriteTo")
	}
	if mb, err := b.MarshalBinary(); err != nil || !bytes.Equal(mb, data) {
		return nil, fail("MarshalBinary", "differs", "roaring64 MarshalBinary differs from WriteTo")
	}
	s, err := b.ToBase64()
	if raw, e := base64.StdEncoding.DecodeString(s); err != nil || e != nil || !bytes.Equal(raw, data) {
		return nil, fail("ToBase64", "differs", "roaring64 ToBase64 does not encode WriteTo's bytes")
	}
	return data, nil
}

func valid64(api string, b *roaring64.Bitmap) *ev.Fail {
	if s := extract.Invariants64(b); s != "" {
		return fail(api, "invariant", "64-bit bitmap malformed after %s: %s", api, s)
	}
	if err := b.Validate(); err != nil {
		return fail(api, "validate:"+err.Error(), "Validate() = %v after %s", err, api)
	}
	return nil
}

// ---- damage family (runs in the cage) ----

type dmgCase struct {
	Seed    int
	Kind    string
	Data    []byte
	Decoder int
}

var (
	dmgOnce  sync.Once
	dmgCases map[string][]dmgCase
)

func seeds64() [][]byte {
	var out [][]byte
	for _, r := range pool64Named(true, "{}", "{0}", "{bucket0: few, bucket1: few}", "{range across 2^32}", "{buckets 0,2,0xFFFFFFFF}", "{buckets 0..3 one value each}") {
		b, _ := r.Build().B.ToBytes()
		out = append(out, b)
	}
	return out
}

func buildDamage(tier string) []dmgCase {
	quick := tier != "thorough"
	var cs []dmgCase
	byteVals := func(orig byte) []byte {
		if !quick {
			v := make([]byte, 256)
			for i := range v {
				v[i] = byte(i)
			}
			return v
		}
		return []byte{0, 1, 0x3A, 0x3B, 0x7F, 0x80, 0xFF, orig + 1, orig - 1}
	}
	for si, seed := range seeds64() {
		add := func(kind string, data []byte) {
			for d := range decoders64 {
				cs = append(cs, dmgCase{si, kind, data, d})
			}
		}
		n := binary.LittleEndian.Uint64(seed)
		// (a) every proper prefix
		step := 1
		if len(seed) > 400 {
			step = 37
		}
		for k := 0; k < len(seed); k++ {
			if k < 64 || k%step == 0 || k > len(seed)-8 {
				add(fmt.Sprintf("prefix %d of %d", k, len(seed)), append([]byte(nil), seed[:k]...))
			}
		}
		// (b) bucket count
		for _, v := range []uint64{0, n - 1, n + 1, n + 2, 1 << 16, 1 << 31, 1 << 32, 1<<32 + 1, 1 << 40, 1<<63 - 1, 1 << 63, ^uint64(0)} {
			d := append([]byte(nil), seed...)
			binary.LittleEndian.PutUint64(d, v)
			add(fmt.Sprintf("bucket count %d -> %d", n, v), d)
		}
		for pos := 0; pos < 8; pos++ {
			for _, v := range byteVals(seed[pos]) {
				d := append([]byte(nil), seed...)
				d[pos] = v
				add(fmt.Sprintf("count byte %d = %#x", pos, v), d)
			}
		}
		// (c) keys and (d) inner headers: locate the buckets by parsing the seed
		pos := 8
		var keyPos []int
		for i := uint64(0); i < n && pos+4 <= len(seed); i++ {
			keyPos = append(keyPos, pos)
			inner := seed[pos+4:]
			// inner length: decode with the library-independent spec decoder is overkill here; use sizes from a clean decode
			rb := roaring64.New()
			_ = rb
			l := innerLen(inner)
			if l <= 0 {
				break
			}
			pos += 4 + l
		}
		for i, kp := range keyPos {
			for b := 0; b < 4; b++ {
				for _, v := range []byte{0, 0xFF, seed[kp+b] + 1} {
					d := append([]byte(nil), seed...)
					d[kp+b] = v
					add(fmt.Sprintf("key %d byte %d = %#x", i, b, v), d)
				}
			}
			if i > 0 {
				d := append([]byte(nil), seed...)
				copy(d[kp:kp+4], seed[keyPos[i-1]:keyPos[i-1]+4])
				add(fmt.Sprintf("key %d duplicates key %d", i, i-1), d)
				d2 := append([]byte(nil), seed...)
				copy(d2[kp:kp+4], seed[keyPos[0]:keyPos[0]+4])
				copy(d2[keyPos[0]:keyPos[0]+4], seed[kp:kp+4])
				add(fmt.Sprintf("keys %d and 0 swapped (descending)", i), d2)
			}
			hdr := 24
			for off := 0; off < hdr && kp+4+off < len(seed); off++ {
				for _, v := range byteVals(seed[kp+4+off]) {
					d := append([]byte(nil), seed...)
					d[kp+4+off] = v
					add(fmt.Sprintf("bucket %d inner header byte %d = %#x", i, off, v), d)
				}
			}
		}
	}
	return cs
}

// innerLen returns the length of the portable 32-bit stream at the start of b (per the format specification), or -1.
func innerLen(b []byte) int {
	_, used, err := specDecode(b)
	if err != nil {
		return -1
	}
	return used
}

func c18Family(tier string) (int, func(id int) string) {
	cs := buildDamage(tier)
	return len(cs), func(id int) (out string) {
		c := cs[id]
		defer func() {
			if r := recover(); r != nil {
				st := string(debug.Stack())
				if i := strings.Index(st, "roaring"); i > 0 && len(st) > i+300 {
					st = st[i : i+300]
				}
				out = fmt.Sprintf("VIOL %s panics on damaged input (%s): %v", decoders64[c.Decoder], c.Kind, r)
			}
		}()
		rb := roaring64.New()
		_, _, err := decode64(c.Decoder, rb, c.Data, nil)
		if err != nil {
			return "ok error"
		}
		// a bitmap was returned: it must at least be usable for Validate without panicking
		_ = rb.Validate()
		return "ok bitmap"
	}
}

func runC18(c *Ctx) {
	q := c.Quick()
	pool := pool64(q)
	var execs, chunkRuns, wexecs int64
	rt := &explore.Product{Name: "64-bit writers x decoders x receivers + Validate", Dims: []int{len(pool), len(decoders64), 3}, Deadline: c.Budget(25, 500), Execs: &execs,
		Run: func(idx []int) (string, *ev.Fail) {
			src := pool[idx[0]].Build()
			if f := valid64("construction", src.B); f != nil {
				return "", f
			}
			data, f := writers64(src.B)
			if f != nil {
				return "", f
			}
			var rb *roaring64.Bitmap
			switch idx[2] {
			case 0:
				rb = roaring64.New()
			case 1:
				rb = pool[(idx[0]+3)%len(pool)].Build().B // previously held something else
			default:
				rb = roaring64.New()
				other, _ := pool64Named(true, "{bucket1 big run, bucket2 stripe}")[0].Build().B.ToBytes()
				rb.FromUnsafeBytes(shapes.Aligned(other))
			}
			api := decoders64[idx[1]]
			rep, consumed, err := decode64(idx[1], rb, data, nil)
			atomic.AddInt64(&execs, 1)
			if err != nil {
				return "", fail(api, "error", "roaring64 %s of the library's own bytes failed: %v", api, err)
			}
			if rep >= 0 && rep != int64(len(data)) || consumed >= 0 && consumed != len(data) {
				return "", fail(api, "accounting", "roaring64 %s reported %d consumed %d, stream has %d", api, rep, consumed, len(data))
			}
			if !rb.Equals(src.B) || !src.B.Equals(rb) {
				return "", fail(api, "equals", "roaring64 %s result is not Equal to the original", api)
			}
			if got := extract.Of64(rb); !got.Equal(src.M) {
				return "", fail(api, "content", "roaring64 %s result differs: %s", api, diff64(got, src.M))
			}
			if f := valid64(api+" round trip", rb); f != nil {
				return "", f
			}
			return api, nil
		},
		Describe: func(idx []int) any {
			return map[string]any{"state": pool[idx[0]].Name, "decoder": decoders64[idx[1]], "receiver": idx[2]}
		}}
	rc := &explore.Product{Name: "64-bit ReadFrom x reader chunkings (<= 2 deviations)", Dims: []int{len(pool)}, Deadline: c.Budget(45, 900), Execs: &chunkRuns,
		Run: func(idx []int) (string, *ev.Fail) {
			src := pool[idx[0]].Build()
			data, _ := src.B.ToBytes()
			bound, maxPoint := 2, 1<<30
			if len(data) > 20000 {
				bound, maxPoint = 1, 24 // large streams: single deviations at the first 24 reads only
			}
			var f *ev.Fail
			n := env.ExploreLimited(bound, maxPoint, func(ch *env.Chooser) bool {
				rb := roaring64.New()
				rep, consumed, err := decode64(0, rb, data, ch)
				if err != nil || rep != int64(len(data)) || consumed != len(data) || !rb.Equals(src.B) {
					f = fail("ReadFrom", "chunking", "roaring64 ReadFrom under reader chunking %v: err=%v reported=%d consumed=%d of %d, equal=%v", ch.Taken, err, rep, consumed, len(data), err == nil && rb.Equals(src.B))
					return false
				}
				return true
			})
			atomic.AddInt64(&chunkRuns, int64(n))
			return fmt.Sprint(n > 10), f
		}, Describe: func(idx []int) any { return pool[idx[0]].Name }}
	wf := &explore.Product{Name: "64-bit WriteTo x writer failure offsets", Dims: []int{len(pool)}, Deadline: c.Budget(55, 1000), Execs: &wexecs,
		Run: func(idx []int) (string, *ev.Fail) {
			src := pool[idx[0]].Build()
			data, _ := src.B.ToBytes()
			for k := 0; k < len(data); k++ {
				if len(data) > 800 && k > 64 && k%509 != 0 && k < len(data)-4 {
					continue
				}
				for mode := 0; mode < 2; mode++ {
					w := &env.FailWriter{FailAt: k, Mode: mode}
					n, err := src.B.WriteTo(w)
					atomic.AddInt64(&wexecs, 1)
					if err == nil {
						return "", fail("WriteTo", "swallowed-error", "roaring64 WriteTo returned nil error (n=%d) although the writer failed at offset %d of %d", n, k, len(data))
					}
					if n > int64(k) {
						return "", fail("WriteTo", "overcount", "roaring64 WriteTo reported %d bytes, the writer accepted %d", n, k)
					}
				}
			}
			return "ok", nil
		}, Describe: func(idx []int) any { return pool[idx[0]].Name }}
	// Validate in every state of a 64-bit closure
	vs := bfs64("V64:S64wide", s64Ops(true), 2, func(w *W64) *ev.Fail {
		if f := checkState64("history", w.B, w.M); f != nil {
			return f
		}
		if f := valid64("history", w.B); f != nil {
			return f
		}
		data, err := w.B.ToBytes()
		if err != nil {
			return fail("ToBytes", "error", "%v", err)
		}
		rb := roaring64.New()
		if _, err := rb.ReadFrom(bytes.NewReader(data)); err != nil {
			return fail("ReadFrom", "error", "own bytes rejected: %v", err)
		}
		return valid64("history + round trip", rb)
	})
	vs.Deadline = c.Budget(80, 1300)
	scs := []explore.Scenario{rt, rc, wf, vs}
	if c.Replay != nil && c.Replay.Scenario == "damage" {
		// replay of one caged case: run it in a cage of one
		replayCaged(c, "C18damage")
		return
	}
	runScenarios(c, scs...)
	if c.Replay == nil {
		runCagedFamily(c, "C18damage", "damage", "damaged 64-bit streams x 4 decoders (subprocess cage, 6 GiB address-space limit, 20 s silence watchdog)")
	}
}

// runCagedFamily runs a cage family and reports deaths / hangs / VIOL outcomes.
func runCagedFamily(c *Ctx, family, scenario, title string) {
	t0 := time.Now()
	total, _ := CageFamilies[family](c.Tier)
	var done, died, accepted int64
	outcomes := map[string]int{}
	env.RunCaged(0, total, explore.Workers(), 20*time.Second, []string{"-child", family, "-tier", c.Tier}, func(r env.CageResult) {
		done++
		key := r.Outcome
		if len(key) > 12 {
			key = key[:12]
		}
		outcomes[key]++
		if strings.HasPrefix(r.Outcome, "ok") {
			if r.Outcome != "ok error" {
				accepted++
			}
			return
		}
		died++
		shape := normShape(r.Outcome)
		if strings.HasPrefix(r.Outcome, "DIED") {
			shape = "fatal"
		} else if strings.HasPrefix(r.Outcome, "HANG") {
			shape = "hang"
		}
		c.R.Report(&ev.Fail{Scenario: scenario, Case: r.ID, API: family, Shape: shape, What: fmt.Sprintf("case %d: %s", r.ID, trunc(r.Outcome, 400))})
	})
	if c.R.Level == "fault_enumeration" {
		c.R.SetExtra("evaluations", done)
		c.R.SetExtra("distinct_nontrivial", accepted)
		c.R.SetExtra("rule", "cases are enumerated deterministically: every seed stream x every mutation of the stated families x every entry point, each a distinct (bytes, entry point) pair; a case is non-trivial when the decoder accepted the bytes, so that the post-decode oracles (Validate, then the genuine-set battery) actually ran")
	}
	c.R.AddScenario(ev.ScenarioStat{Name: title, States: done, Transitions: done, Exhaustive: done == int64(total), Bound: fmt.Sprintf("%d cases enumerated, %d executed", total, done), Outcomes: len(outcomes), Extra: map[string]any{"outcome_histogram": outcomes}, WallS: time.Since(t0).Seconds()})
}

// replayCaged re-runs one caged case (its id) in a fresh cage.
func replayCaged(c *Ctx, family string) {
	var id int
	if err := jsonUnmarshal(c.Replay.Case, &id); err != nil {
		c.R.HarnessError("bad caged replay case")
		return
	}
	total, _ := CageFamilies[family](c.Tier)
	if id < 0 || id >= total {
		c.R.HarnessError("caged replay id out of range")
		return
	}
	env.RunCaged(id, id+1, 1, 20*time.Second, []string{"-child", family, "-tier", c.Tier}, func(r env.CageResult) {
		if r.ID == id && !strings.HasPrefix(r.Outcome, "ok") {
			c.R.Report(&ev.Fail{Scenario: c.Replay.Scenario, Case: id, API: family, Shape: "replay", What: r.Outcome})
		}
	})
}

// normShape turns a VIOL outcome into a class label: the input description in [...] and all digits are dropped.
func normShape(out string) string {
	if i := strings.Index(out, " ["); i > 0 {
		if j := strings.Index(out[i:], "]"); j > 0 {
			out = out[:i] + out[i+j+1:]
		}
	}
	var sb strings.Builder
	for _, r := range out {
		if r >= '0' && r <= '9' {
			continue
		}
		sb.WriteRune(r)
	}
	s := sb.String()
	if i := strings.Index(s, " @ "); i > 0 {
		s = s[:i]
	}
	if len(s) > 140 {
		s = s[:140]
	}
	return s
}
