package props

import (
	"bytes"
	"encoding/base64"
	"fmt"
	"runtime"
	"sync/atomic"

	"github.com/RoaringBitmap/roaring/v2"
	"verifmc/internal/env"
	"verifmc/internal/ev"
	"verifmc/internal/explore"
	"verifmc/internal/extract"
	"verifmc/internal/model"
	"verifmc/internal/shapes"
)

func init() { Drivers["C05"] = Driver{Level: "model_checking", Run: runC05} }

var decoderNames = []string{"ReadFrom", "FromBuffer", "FromUnsafeBytes", "UnmarshalBinary", "FromBase64"}

// decode32 runs decoder d on data (followed by trailer bytes where the entry
// point takes a stream) into rb. It returns the byte count the decoder reported
// (-1 when the entry point reports none) and the bytes consumed from a stream (-1 n/a).
func decode32(d int, rb *roaring.Bitmap, data []byte) (reported int64, consumed int, err error) {
	switch d {
	case 0:
		withTrailer := append(append([]byte(nil), data...), 0xEE, 0xEE, 0xEE, 0xEE, 0xEE)
		r := &env.ScriptReader{Data: withTrailer}
		n, e := rb.ReadFrom(r)
		return n, r.Delivered, e
	case 1:
		n, e := rb.FromBuffer(shapes.Aligned(data))
		return n, -1, e
	case 2:
		n, e := rb.FromUnsafeBytes(shapes.Aligned(data))
		return n, -1, e
	case 3:
		return -1, -1, rb.UnmarshalBinary(append([]byte(nil), data...))
	default:
		n, e := rb.FromBase64(base64.StdEncoding.EncodeToString(data))
		return n, -1, e
	}
}

// writers32 serialises b through the four writers and checks they agree and the byte accounting.
func writers32(b *roaring.Bitmap) ([]byte, *ev.Fail) {
	var buf bytes.Buffer
	n, err := b.WriteTo(&buf)
	if err != nil {
		return nil, fail("WriteTo", "error", "WriteTo failed: %v", err)
	}
	data := buf.Bytes()
	sz := b.GetSerializedSizeInBytes()
	if int64(len(data)) != n || uint64(len(data)) != sz {
		return nil, fail("WriteTo", "accounting", "WriteTo wrote %d bytes, returned %d, GetSerializedSizeInBytes()=%d", len(data), n, sz)
	}
	tb, err := b.ToBytes()
	if err != nil || !bytes.Equal(tb, data) {
		return nil, fail("ToBytes", "differs", "ToBytes differs from WriteTo (err=%v, %d vs %d bytes)", err, len(tb), len(data))
	}
	mb, err := b.MarshalBinary()
	if err != nil || !bytes.Equal(mb, data) {
		return nil, fail("MarshalBinary", "differs", "MarshalBinary differs from WriteTo (err=%v)", err)
	}
	s, err := b.ToBase64()
	if err != nil {
		return nil, fail("ToBase64", "error", "ToBase64 failed: %v", err)
	}
	if raw, e := base64.StdEncoding.DecodeString(s); e != nil || !bytes.Equal(raw, data) {
		return nil, fail("ToBase64", "differs", "ToBase64 does not encode WriteTo's bytes")
	}
	return data, nil
}

// receivers: what the receiver held before decoding.
const nReceivers = 4

func makeReceiver(k int) (*roaring.Bitmap, any) {
	switch k {
	case 0:
		return roaring.New(), nil
	case 1: // larger: many chunks of mixed kinds
		b := shapes.Spec{Chunks: []shapes.ChunkSpec{{Key: 0, Mask: bit(shapes.Full)}, {Key: 1, Mask: bit(shapes.S4095)}, {Key: 2, Mask: bit(shapes.Big)}, {Key: 3, Mask: bit(shapes.Lo)}, {Key: 9, Mask: bit(shapes.Lo)}, {Key: 10, Mask: bit(shapes.Lo)}, {Key: 11, Mask: bit(shapes.R2047)}}, Mode: shapes.Opt}.Build()
		defer runtime.KeepAlive(b)
		return b.B, b
	case 2: // smaller: one tiny chunk, copy-on-write enabled
		b := roaring.BitmapOf(7)
		b.SetCopyOnWrite(true)
		return b, nil
	default: // zero-copy loaded from another buffer
		b := shapes.Spec{Chunks: []shapes.ChunkSpec{{Key: 0, Mask: bit(shapes.Lo, shapes.Hi)}, {Key: 5, Mask: bit(shapes.Big)}}, Mode: shapes.Opt, Share: shapes.ZeroC}.Build()
		defer runtime.KeepAlive(b)
		return b.B, b
	}
}

// sweepOps: the depth-1 "supports all further operations" sweep applied to a decoded bitmap.
func sweepOps(m *model.Set32) []op32 {
	ops := []op32{opClear(), opRunOptimize(), opClone(), opCloneCOW()}
	pts := []uint32{0, 65535, 0xFFFFFFFF}
	if mn, ok := m.Min(); ok {
		mx, _ := m.Max()
		pts = append(pts, mn, mx, mn+1, mx-1)
		k := uint64(mn >> 16 << 16)
		// ranges stay within a few chunks: the model costs 8 KiB per touched chunk
		fe := k + 3*65536
		if fe > 1<<32 {
			fe = 1 << 32
		}
		ops = append(ops, opAddRange(k, k+65536), opRemoveRange(k, k+65536), opFlip(k+1, k+65535), opRemoveRange(uint64(mn), uint64(mx)), opFlip(k+5, fe))
	}
	for _, p := range pts {
		ops = append(ops, opAdd(p), opCheckedAdd(p), opRemove(p), opCheckedRemove(p))
	}
	ops = append(ops, opAddMany("stripe", atomVals(shapes.S1000a, 1)), opAddRange(0, 70000), opFlip(60000, 140000))
	return ops
}

func runC05(c *Ctx) {
	q := c.Quick()
	corpus := corpus32(q)
	var evals int64
	rt := &explore.Product{Name: "writers x decoders x receivers", Dims: []int{len(corpus), len(decoderNames), nReceivers}, Deadline: c.Budget(40, 900),
		Run: func(idx []int) (string, *ev.Fail) {
			src := corpus[idx[0]].Build()
			defer runtime.KeepAlive(src)
			data, f := writers32(src.B)
			if f != nil {
				return "", f
			}
			d := idx[1]
			rb, keep := makeReceiver(idx[2])
			_ = keep
			rep, consumed, err := decode32(d, rb, data)
			api := decoderNames[d]
			if err != nil {
				return "", fail(api, "error", "%s of the library's own bytes failed: %v", api, err)
			}
			if rep >= 0 && rep != int64(len(data)) {
				return "", fail(api, "accounting", "%s reported %d bytes, stream has %d", api, rep, len(data))
			}
			if consumed >= 0 && consumed != len(data) {
				return "", fail(api, "consumed", "%s consumed %d bytes from the reader, stream has %d", api, consumed, len(data))
			}
			if !rb.Equals(src.B) || !src.B.Equals(rb) {
				return "", fail(api, "equals", "%s result is not Equal to the original", api)
			}
			if got := extract.Of(rb); !got.Equal(src.M) {
				return "", fail(api, "content", "%s result differs: %s", api, diff32(got, src.M))
			}
			if got := extract.Of(src.B); !got.Equal(src.M) {
				return "", fail(api, "source-modified", "serialising/decoding modified the source: %s", diff32(got, src.M))
			}
			return fmt.Sprint(len(data) % 5), nil
		},
		Describe: func(idx []int) any {
			return map[string]any{"state": corpus[idx[0]].Name, "decoder": decoderNames[idx[1]], "receiver": idx[2]}
		}}
	// decoded bitmaps support all further operations: depth-1 sweep per decoder
	swc := corpus
	// decodeKept is decode32 with the decoder's input kept by the caller: the zero-copy entry points (FromBuffer,
	// FromUnsafeBytes) hand the bitmap a view of kept, which no later operation on the bitmap may write
	decodeKept := func(d int, rb *roaring.Bitmap, data []byte) (kept []byte, err error) {
		switch d {
		case 1:
			kept = shapes.Aligned(data)
			_, err = rb.FromBuffer(kept)
		case 2:
			kept = shapes.Aligned(data)
			_, err = rb.FromUnsafeBytes(kept)
		default:
			_, _, err = decode32(d, rb, data)
		}
		return kept, err
	}
	sw := &explore.Product{Name: "decoded bitmap x receiver history x depth-1 operation sweep", Dims: []int{len(swc), len(decoderNames), 2}, Deadline: c.Budget(70, 1300), Execs: &evals,
		Run: func(idx []int) (string, *ev.Fail) {
			src := swc[idx[0]].Build()
			defer runtime.KeepAlive(src)
			data, err := src.B.ToBytes()
			if err != nil {
				return "", fail("ToBytes", "error", "%v", err)
			}
			ops := sweepOps(src.M)
			api := decoderNames[idx[1]]
			if idx[2] == 1 {
				api += " into a used receiver"
			}
			for _, op := range ops {
				rb, keep := makeReceiver(idx[2]) // 0: fresh, 1: previously used, more plain chunks than any decoded state below 8 chunks
				kept, err := decodeKept(idx[1], rb, data)
				if err != nil {
					return "", fail(api, "error", "%v", err)
				}
				w := &W32{B: rb, M: src.M.Clone()}
				if _, f := op.F(w); f != nil {
					f.What = "after " + api + ": " + f.What
					return "", f
				}
				if f := checkState32(api+"+"+op.Name, w.B, w.M, false); f != nil {
					return "", f
				}
				if kept != nil && !bytes.Equal(kept, data) {
					return "", fail(api, "source-bytes-written", "%s after %s wrote into the bytes the bitmap was decoded from", op.Name, api)
				}
				runtime.KeepAlive(keep)
				atomic.AddInt64(&evals, 1)
			}
			// and binary operations with a plain partner, as receiver and as argument
			partner := shapes.Spec{Chunks: []shapes.ChunkSpec{{Key: 1, Mask: bit(shapes.Big, shapes.Lo)}, {Key: 2, Mask: bit(shapes.Lo)}}}
			for ci := 0; ci < nPairCalls; ci++ {
				dec := recipe{Name: "decoded", Build: func() *shapes.Built {
					rb := roaring.New()
					decode32(idx[1], rb, data)
					return &shapes.Built{B: rb, M: src.M.Clone()}
				}}
				if _, f := runPairCall(dec, specRecipe(partner), ci, false, nil); f != nil {
					return "", f
				}
				if _, f := runPairCall(specRecipe(partner), dec, ci, false, nil); f != nil {
					return "", f
				}
				atomic.AddInt64(&evals, 2)
			}
			return fmt.Sprint(len(ops)), nil
		},
		Describe: func(idx []int) any {
			return map[string]any{"state": swc[idx[0]].Name, "decoder": decoderNames[idx[1]]}
		}}
	// reader chunkings
	var small []recipe
	for _, r := range corpus {
		if len(r.Build().M.Keys()) <= 8 {
			small = append(small, r)
		}
	}
	bound := 2
	var chunkRuns int64
	rc := &explore.Product{Name: fmt.Sprintf("ReadFrom x reader chunkings (<= %d deviations) x EOF styles", bound), Dims: []int{len(small), 2}, Deadline: c.Budget(95, 1600), Execs: &chunkRuns,
		Run: func(idx []int) (string, *ev.Fail) {
			src := small[idx[0]].Build()
			defer runtime.KeepAlive(src)
			data, _ := src.B.ToBytes()
			withTrailer := append(append([]byte(nil), data...), 0xEE, 0xEE, 0xEE)
			stream := withTrailer
			if idx[1] == 1 {
				stream = data // EOF arrives together with the last bytes
			}
			b, maxPoint := bound, 1<<30
			if len(data) > 9000 && q {
				b = 1
			}
			if len(src.M.Keys()) > 40 {
				b, maxPoint = 1, 40
			}
			var f *ev.Fail
			n := env.ExploreLimited(b, maxPoint, func(ch *env.Chooser) bool {
				r := &env.ScriptReader{Data: stream, C: ch, EOFStyle: idx[1]}
				rb := roaring.New()
				rep, err := rb.ReadFrom(r)
				if err != nil {
					f = fail("ReadFrom", "chunking-error", "ReadFrom fails under reader chunking %v: %v", ch.Taken, err)
					return false
				}
				if rep != int64(len(data)) || r.Delivered != len(data) {
					f = fail("ReadFrom", "chunking-accounting", "ReadFrom under chunking %v reported %d, consumed %d, stream has %d", ch.Taken, rep, r.Delivered, len(data))
					return false
				}
				if !rb.Equals(src.B) {
					f = fail("ReadFrom", "chunking-content", "ReadFrom under chunking %v gives a different bitmap", ch.Taken)
					return false
				}
				return true
			})
			atomic.AddInt64(&chunkRuns, int64(n))
			return fmt.Sprint(n), f
		},
		Describe: func(idx []int) any { return map[string]any{"state": small[idx[0]].Name, "eof_style": idx[1]} }}
	// writer failures at every offset
	var wruns int64
	wf := &explore.Product{Name: "WriteTo x writer failure offsets x failure modes", Dims: []int{len(corpus)}, Deadline: c.Budget(110, 1750), Execs: &wruns,
		Run: func(idx []int) (string, *ev.Fail) {
			src := corpus[idx[0]].Build()
			defer runtime.KeepAlive(src)
			data, _ := src.B.ToBytes()
			offs := map[int]struct{}{}
			if len(data) <= 700 {
				for k := 0; k < len(data); k++ {
					offs[k] = struct{}{}
				}
			} else {
				hdr := 8 + 9*len(src.M.Keys()) + 8
				for k := 0; k < hdr && k < len(data); k++ {
					offs[k] = struct{}{}
				}
				// payload boundaries +-1 (from the independent decoder's offsets is overkill; use sizes)
				for k := len(data) - 3; k < len(data); k++ {
					offs[k] = struct{}{}
				}
				for k := hdr; k < len(data); k += 1021 {
					offs[k] = struct{}{}
				}
			}
			n := 0
			for k := range offs {
				for mode := 0; mode < 2; mode++ {
					w := &env.FailWriter{FailAt: k, Mode: mode}
					wn, err := src.B.WriteTo(w)
					if err == nil {
						return "", fail("WriteTo", "swallowed-error", "WriteTo returned nil error (n=%d) although the writer failed at offset %d (mode %d) of %d bytes", wn, k, mode, len(data))
					}
					if wn > int64(k) {
						return "", fail("WriteTo", "overcount", "WriteTo reported %d bytes written, the writer accepted only %d", wn, k)
					}
					if !bytes.Equal(w.Written, data[:len(w.Written)]) {
						return "", fail("WriteTo", "prefix", "bytes accepted before the failure are not a prefix of the serialisation")
					}
					n++
				}
			}
			atomic.AddInt64(&wruns, int64(n))
			return fmt.Sprint(n % 3), nil
		},
		Describe: func(idx []int) any { return corpus[idx[0]].Name }}
	big := &explore.Product{Name: "65535/65536-chunk and full 2^32 shapes x decoders", Dims: []int{3, len(decoderNames)}, Deadline: c.Budget(118, 1790),
		Run: func(idx []int) (string, *ev.Fail) {
			b := roaring.New()
			var card uint64
			switch idx[0] {
			case 0, 1:
				n := 65535 + idx[0]
				vs := make([]uint32, n)
				for i := range vs {
					vs[i] = uint32(i)<<16 | uint32(i&0xFFFF)
				}
				b.AddMany(vs)
				card = uint64(n)
			default:
				b.AddRange(0, 1<<32)
				card = 1 << 32
			}
			data, f := writers32(b)
			if f != nil {
				return "", f
			}
			rb := roaring.New()
			rep, consumed, err := decode32(idx[1], rb, data)
			if err != nil {
				return "", fail(decoderNames[idx[1]], "error", "big shape %d: %v", idx[0], err)
			}
			if rep >= 0 && rep != int64(len(data)) || consumed >= 0 && consumed != len(data) {
				return "", fail(decoderNames[idx[1]], "accounting", "big shape %d: reported %d consumed %d of %d", idx[0], rep, consumed, len(data))
			}
			if !rb.Equals(b) || rb.GetCardinality() != card {
				return "", fail(decoderNames[idx[1]], "equals", "big shape %d: round trip not Equal / cardinality %d want %d", idx[0], rb.GetCardinality(), card)
			}
			return fmt.Sprint(idx[0]), nil
		}}
	runScenarios(c, corpusReadback(c, "corpus construction: FromUnsafeBytes(ToBytes())", "ToBytes"), rt, sw, rc, wf, big)
	c.R.SetExtra("decode_and_sweep_evaluations", atomic.LoadInt64(&evals))
	c.R.SetExtra("reader_chunking_executions", atomic.LoadInt64(&chunkRuns))
	c.R.SetExtra("writer_failure_executions", atomic.LoadInt64(&wruns))
}
