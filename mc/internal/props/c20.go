package props

import (
	"fmt"
	"math"
	"math/big"
	"os"
	"sort"
	"sync"
	"sync/atomic"

	"verifmc/internal/ev"
	"verifmc/internal/explore"
)

func init() { Drivers["C20"] = Driver{Level: "model_checking", Run: runC20} }

const (
	opLT = 1 + iota
	opLE
	opEQ
	opGE
	opGT
	opRANGE
	opMIN
	opMAX
)

var opNames = map[int]string{opLT: "LT", opLE: "LE", opEQ: "EQ", opGE: "GE", opGT: "GT", opRANGE: "RANGE", opMIN: "MIN", opMAX: "MAX"}

func holds(op int, v, a, b *big.Int) bool {
	switch op {
	case opLT:
		return v.Cmp(a) < 0
	case opLE:
		return v.Cmp(a) <= 0
	case opEQ:
		return v.Cmp(a) == 0
	case opGE:
		return v.Cmp(a) >= 0
	case opGT:
		return v.Cmp(a) > 0
	case opRANGE:
		return v.Cmp(a) >= 0 && v.Cmp(b) <= 0
	}
	panic("op")
}

func eqU64(a, b []uint64) bool {
	if len(a) != len(b) {
		return false
	}
	for i := range a {
		if a[i] != b[i] {
			return false
		}
	}
	return true
}

// indexRange: the value range the index currently represents (its created or auto-sized width).
func indexRange(cfg bsiCfg, w *WB) (*big.Int, *big.Int) {
	p := w.B.Planes()
	var lo, hi *big.Int
	if cfg.Wide {
		bc := p - 1
		if bc < 0 {
			bc = 0
		}
		hi = new(big.Int).Sub(new(big.Int).Lsh(big.NewInt(1), uint(bc)), big.NewInt(1))
		lo = new(big.Int).Neg(new(big.Int).Lsh(big.NewInt(1), uint(bc)))
	} else {
		if p >= 64 {
			lo, hi = bigOf(math.MinInt64), bigOf(math.MaxInt64)
		} else {
			lo = big.NewInt(0)
			hi = new(big.Int).Sub(new(big.Int).Lsh(big.NewInt(1), uint(p)), big.NewInt(1))
		}
	}
	if !w.Auto {
		if bigOf(w.Min).Cmp(lo) > 0 {
			lo = bigOf(w.Min)
		}
		if bigOf(w.Max).Cmp(hi) < 0 {
			hi = bigOf(w.Max)
		}
	}
	return lo, hi
}

func subsets(cols []uint64) [][]uint64 {
	if len(cols) > 5 {
		cols = cols[:5]
	}
	var out [][]uint64
	for mask := 0; mask < 1<<len(cols); mask++ {
		var s []uint64
		for i, c := range cols {
			if mask&(1<<i) != 0 {
				s = append(s, c)
			}
		}
		out = append(out, s)
	}
	return out
}

type foundSpec struct {
	name string
	cols []uint64
	nilF bool
	own  bool
}

func foundSets(m bsiModel) []foundSpec {
	fs := []foundSpec{{name: "nil", nilF: true, cols: m.cols()}, {name: "own existence bitmap", own: true, cols: m.cols()}}
	for _, s := range subsets(m.cols()) {
		fs = append(fs, foundSpec{name: fmt.Sprint(s), cols: s})
	}
	return fs
}

// checkQueries is property C20's per-state oracle. workers lists the worker counts to use.
func checkQueries(cfg bsiCfg, w *WB, workers []int, evals *int64, known func(*ev.Fail) bool) *ev.Fail {
	m := w.M
	if len(m) == 0 {
		// empty index: queries return empty results
		if g := w.B.CompareValue(1, opGE, 0, 0, nil, true, false); len(g) != 0 {
			if f := fail("CompareValue", "empty", "CompareValue on an empty index returned %v", g); !known(f) {
				return f
			}
		}
		if g := w.B.BatchEqual(1, []int64{0}); len(g) != 0 {
			if f := fail("BatchEqual", "empty", "BatchEqual on an empty index returned %v", g); !known(f) {
				return f
			}
		}
		return nil
	}
	lo, hi := indexRange(cfg, w)
	inR := func(v *big.Int) bool { return v.Cmp(lo) >= 0 && v.Cmp(hi) <= 0 }
	// queries are read-only: the index still holds exactly the model's map afterwards
	unchanged := func(api, call string) *ev.Fail {
		if g := w.B.Card(); g != uint64(len(m)) {
			return fail(api, "query-modified-index", "after %s the index holds %d columns, want %d [%s, map %s]", call, g, len(m), cfg.Name, m.key())
		}
		for _, c := range append(append([]uint64{}, cfg.Cols...), 9, 100, 101, 102, 103, 104) {
			want, in := m[c]
			if g := w.B.ValueExists(c); g != in {
				return fail(api, "query-modified-index", "after %s ValueExists(%d)=%v, want %v [%s, map %s]", call, c, g, in, cfg.Name, m.key())
			}
			if in && want.IsInt64() {
				if g, ok := w.B.GetValue(c); !ok || g != want.Int64() {
					return fail(api, "query-modified-index", "after %s GetValue(%d)=(%d,%v), want %v [%s, map %s]", call, c, g, ok, want, cfg.Name, m.key())
				}
			}
		}
		if s := w.B.PlaneLeak(); s != "" {
			return fail(api, "query-modified-index", "after %s: %s [%s, map %s]", call, s, cfg.Name, m.key())
		}
		return nil
	}
	// constants: stored values +-1, extremes of the width
	cset := map[string]*big.Int{lo.String(): lo, hi.String(): hi}
	for _, v := range m {
		for _, d := range []int64{-1, 0, 1} {
			x := new(big.Int).Add(v, bigOf(d))
			if inR(x) {
				cset[x.String()] = x
			}
		}
	}
	var consts []*big.Int
	for _, v := range cset {
		consts = append(consts, v)
	}
	sort.Slice(consts, func(i, j int) bool { return consts[i].Cmp(consts[j]) < 0 })
	founds := foundSets(m)
	n := int64(0)
	expect := func(op int, a, b *big.Int, f foundSpec) []uint64 {
		var out []uint64
		for _, c := range f.cols {
			if v, ok := m[c]; ok && holds(op, v, a, b) {
				out = append(out, c)
			}
		}
		sort.Slice(out, func(i, j int) bool { return out[i] < out[j] })
		return out
	}
	for _, par := range workers {
		for _, f := range founds {
			for op := opLT; op <= opRANGE; op++ {
				for ai, a := range consts {
					bs := []*big.Int{a}
					if op == opRANGE {
						bs = consts[ai:]
						if len(bs) > 3 {
							bs = []*big.Int{bs[0], bs[1], bs[len(bs)-1]}
						}
						if ai > 0 {
							bs = append(bs, consts[0]) // start > end: empty
						}
					}
					for _, b := range bs {
						want := expect(op, a, b, f)
						desc := func(api string) string {
							return fmt.Sprintf("%s(workers=%d, %s, %v, %v, found=%s) [%s, map %s, %d planes]", api, par, opNames[op], a, b, f.name, cfg.Name, m.key(), w.B.Planes())
						}
						if a.IsInt64() && b.IsInt64() {
							got := w.B.CompareValue(par, op, a.Int64(), b.Int64(), f.cols, f.nilF, f.own)
							if !eqU64(got, want) {
								if f := fail("CompareValue", opNames[op], "%s = %v want %v", desc("CompareValue"), got, want); !known(f) {
									return f
								}
							}
							n++
						}
						if !f.own {
							if got, ok := w.B.CompareBig(par, op, a, b, f.cols, f.nilF); ok {
								if !eqU64(got, want) {
									if f := fail("CompareBigValue", opNames[op], "%s = %v want %v", desc("CompareBigValue"), got, want); !known(f) {
										return f
									}
								}
								n++
							}
						}
					}
				}
			}
			// extrema over a non-empty set
			if len(f.cols) > 0 && !f.own {
				var mn, mx *big.Int
				for _, c := range f.cols {
					v := m[c]
					if mn == nil || v.Cmp(mn) < 0 {
						mn = v
					}
					if mx == nil || v.Cmp(mx) > 0 {
						mx = v
					}
				}
				for _, e := range []struct {
					op   int
					want *big.Int
				}{{opMIN, mn}, {opMAX, mx}} {
					if e.want.IsInt64() {
						if got := w.B.MinMax(par, e.op, f.cols, f.nilF); got != e.want.Int64() {
							if f := fail("MinMax", opNames[e.op], "MinMax(workers=%d, %s, found=%s) = %d want %v [%s, map %s, %d planes]", par, opNames[e.op], f.name, got, e.want, cfg.Name, m.key(), w.B.Planes()); !known(f) {
								return f
							}
						}
					}
					if got, ok := w.B.MinMaxBig(par, e.op, f.cols, f.nilF); ok && got.Cmp(e.want) != 0 {
						if f := fail("MinMaxBig", opNames[e.op], "MinMaxBig(workers=%d, %s, found=%s) = %v want %v [%s, map %s]", par, opNames[e.op], f.name, got, e.want, cfg.Name, m.key()); !known(f) {
							return f
						}
					}
					n += 2
				}
			}
		}
	}
	// sums
	for _, f := range founds {
		if f.own {
			continue
		}
		sum := new(big.Int)
		small := true
		lim := bigOf(1 << 40)
		for _, c := range f.cols {
			sum.Add(sum, m[c])
			if new(big.Int).Abs(m[c]).Cmp(lim) > 0 {
				small = false
			}
		}
		if small {
			s, cnt := w.B.Sum(f.cols, f.nilF)
			if s != sum.Int64() || cnt != uint64(len(f.cols)) {
				if f := fail("Sum", "value", "Sum(found=%s) = (%d,%d) want (%v,%d) [%s, map %s]", f.name, s, cnt, sum, len(f.cols), cfg.Name, m.key()); !known(f) {
					return f
				}
			}
		}
		if s, cnt, ok := w.B.SumBig(f.cols, f.nilF); ok && small {
			if s.Cmp(sum) != 0 || cnt != uint64(len(f.cols)) {
				if f := fail("SumBigValues", "value", "SumBigValues(found=%s) = (%v,%d) want (%v,%d) [%s, map %s]", f.name, s, cnt, sum, len(f.cols), cfg.Name, m.key()); !known(f) {
					return f
				}
			}
		}
		n += 2
	}
	// BatchEqual over value lists <= 3
	var vals []*big.Int
	seen := map[string]bool{}
	for _, v := range m {
		if !seen[v.String()] {
			seen[v.String()] = true
			vals = append(vals, v)
		}
	}
	sort.Slice(vals, func(i, j int) bool { return vals[i].Cmp(vals[j]) < 0 })
	absent := new(big.Int).Add(vals[len(vals)-1], bigOf(1))
	if inR(absent) {
		vals = append(vals, absent)
	}
	if len(vals) > 4 {
		vals = append(vals[:3:3], vals[len(vals)-1])
	}
	var lists [][]*big.Int
	var rec func(cur []*big.Int)
	rec = func(cur []*big.Int) {
		if len(cur) > 0 {
			lists = append(lists, append([]*big.Int(nil), cur...))
		}
		if len(cur) == 3 {
			return
		}
		for _, v := range vals {
			rec(append(cur, v))
		}
	}
	rec(nil)
	// a dense range and a 2^k "cube"
	if lo.Cmp(bigOf(0)) <= 0 && hi.Cmp(bigOf(7)) >= 0 {
		var dense, cube []*big.Int
		for i := int64(0); i < 8; i++ {
			dense = append(dense, bigOf(i))
		}
		for _, i := range []int64{0, 1, 4, 5} {
			cube = append(cube, bigOf(i))
		}
		lists = append(lists, dense, cube)
	}
	for _, l := range lists {
		allInt := true
		var ints []int64
		for _, v := range l {
			if !v.IsInt64() {
				allInt = false
			} else {
				ints = append(ints, v.Int64())
			}
		}
		var want []uint64
		for _, c := range m.cols() {
			for _, v := range l {
				if m[c].Cmp(v) == 0 {
					want = append(want, c)
					break
				}
			}
		}
		for _, par := range workers[:1] {
			if allInt {
				if got := w.B.BatchEqual(par, ints); !eqU64(got, want) {
					if f := fail("BatchEqual", "value", "BatchEqual(%v) = %v want %v [%s, map %s, %d planes]", l, got, want, cfg.Name, m.key(), w.B.Planes()); !known(f) {
						return f
					}
				}
				for _, f := range founds {
					if f.own {
						continue
					}
					if got, ok := w.B.BatchEqualValues(par, ints, f.cols, f.nilF); ok {
						if f := unchanged("BatchEqualValues", fmt.Sprintf("BatchEqualValues(%v, found=%s)", l, f.name)); f != nil && !known(f) {
							return f
						}
						wantPairs := map[uint64]int64{}
						for _, c := range f.cols {
							for _, v := range l {
								if m[c].Cmp(v) == 0 {
									wantPairs[c] = v.Int64()
								}
							}
						}
						if len(got) != len(wantPairs) {
							if f := fail("BatchEqualValues", "value", "BatchEqualValues(%v, found=%s) = %v want %v [%s, map %s]", l, f.name, got, wantPairs, cfg.Name, m.key()); !known(f) {
								return f
							}
						}
						for c, v := range wantPairs {
							if gv, ok := got[c]; !ok || gv != v {
								if f := fail("BatchEqualValues", "value", "BatchEqualValues(%v, found=%s) = %v want %v [%s, map %s]", l, f.name, got, wantPairs, cfg.Name, m.key()); !known(f) {
									return f
								}
							}
						}
						n++
					}
				}
			}
			if got, ok := w.B.BatchEqualBig(par, l); ok && !eqU64(got, want) {
				if f := fail("BatchEqualBig", "value", "BatchEqualBig(%v) = %v want %v [%s, map %s]", l, got, want, cfg.Name, m.key()); !known(f) {
					return f
				}
			}
			n += 2
		}
	}
	// transposes: only for values that are column ids of the target (0 <= v < 2^32)
	transposable := true
	for _, v := range m {
		if v.Sign() < 0 || v.Cmp(bigOf(1<<32)) >= 0 {
			transposable = false
		}
	}
	if transposable {
		wantAll := map[uint64]int64{}
		for _, v := range m {
			wantAll[v.Uint64()]++
		}
		keys := func(h map[uint64]int64) []uint64 {
			var ks []uint64
			for k := range h {
				ks = append(ks, k)
			}
			sort.Slice(ks, func(i, j int) bool { return ks[i] < ks[j] })
			return ks
		}
		if got := w.B.Transpose(); !eqU64(got, keys(wantAll)) {
			if f := fail("Transpose", "value", "Transpose() = %v want %v [%s, map %s]", got, keys(wantAll), cfg.Name, m.key()); !known(f) {
				return f
			}
		}
		for _, par := range workers {
			for _, f := range founds {
				if f.own {
					continue
				}
				h := map[uint64]int64{}
				for _, c := range f.cols {
					h[m[c].Uint64()]++
				}
				if got := w.B.IntersectAndTranspose(par, f.cols, f.nilF); !eqU64(got, keys(h)) {
					if f := fail("IntersectAndTranspose", "value", "IntersectAndTranspose(workers=%d, found=%s) = %v want %v [%s, map %s]", par, f.name, got, keys(h), cfg.Name, m.key()); !known(f) {
						return f
					}
				}
				got := w.B.TransposeWithCounts(par, f.cols, f.nilF)
				if len(got) != len(h) {
					if f := fail("TransposeWithCounts", "value", "TransposeWithCounts(workers=%d, found=%s) = %v want %v [%s, map %s]", par, f.name, got, h, cfg.Name, m.key()); !known(f) {
						return f
					}
				}
				for k, cnt := range h {
					if got[k] != cnt {
						if f := fail("TransposeWithCounts", "value", "TransposeWithCounts(workers=%d, found=%s) = %v want %v [%s, map %s]", par, f.name, got, h, cfg.Name, m.key()); !known(f) {
							return f
						}
					}
				}
				// the plain call: no filter argument at all
				if gotNil, ok := w.B.TransposeWithCountsNilFilter(par, f.cols, f.nilF); ok {
					bad := len(gotNil) != len(h)
					for k, cnt := range h {
						if gotNil[k] != cnt {
							bad = true
						}
					}
					if bad {
						if f := fail("TransposeWithCounts", "nil-filter", "TransposeWithCounts(workers=%d, found=%s, filter=nil) = %v want %v [%s, map %s]", par, f.name, gotNil, h, cfg.Name, m.key()); !known(f) {
							return f
						}
					}
					n++
				}
				n += 2
			}
		}
	}
	// CompareBSI against a few other indexes
	for _, om := range []bsiModel{m.clone(), shifted(m, 1, inR), firstOnly(m), bsiModel{m.cols()[0]: bigOf(0)}} {
		if len(om) == 0 {
			continue
		}
		o := cfg.New(cfg.Auto, cfg.Max, cfg.Min)
		okBuild := true
		for c, v := range om {
			if v.IsInt64() {
				o.SetValue(c, v.Int64())
			} else if !o.SetBig(c, v) {
				okBuild = false
			}
		}
		if !okBuild {
			continue
		}
		for op := opLT; op <= opGT; op++ {
			for _, f := range founds {
				if f.own {
					continue
				}
				var want []uint64
				for _, c := range f.cols {
					if ov, ok := om[c]; ok && holds(op, m[c], ov, ov) {
						want = append(want, c)
					}
				}
				got, ok := w.B.CompareBSI(op, o, f.cols, f.nilF)
				if !ok {
					continue
				}
				if !eqU64(got, want) {
					if f := fail("CompareBSI", opNames[op], "CompareBSI(%s, other=%s, found=%s) = %v want %v [%s, map %s]", opNames[op], om.key(), f.name, got, want, cfg.Name, m.key()); !known(f) {
						return f
					}
				}
				n++
			}
		}
	}
	// returned bitmaps are independent of the index's internal bitmaps
	for _, a := range consts {
		if a.IsInt64() {
			for _, op := range []int{opEQ, opGE, opLE} {
				if !w.B.ResultIndependent(1, op, a.Int64()) {
					if f := fail("CompareValue", "result-aliases-index", "mutating the bitmap returned by CompareValue(%s,%v) changed a repeated query [%s, map %s]", opNames[op], a, cfg.Name, m.key()); !known(f) {
						return f
					}
				}
				n++
			}
			break
		}
	}
	if f := unchanged("queries", "the query battery"); f != nil && !known(f) {
		return f
	}
	atomic.AddInt64(evals, n)
	return nil
}

func shifted(m bsiModel, d int64, inR func(*big.Int) bool) bsiModel {
	o := bsiModel{}
	for c, v := range m {
		x := new(big.Int).Add(v, bigOf(d))
		if !inR(x) {
			x = new(big.Int).Set(v)
		}
		o[c] = x
	}
	return o
}

func firstOnly(m bsiModel) bsiModel {
	o := bsiModel{}
	if cs := m.cols(); len(cs) > 0 {
		o[cs[0]] = new(big.Int).Set(m[cs[0]])
	}
	return o
}

func runC20(c *Ctx) {
	q := c.Quick()
	var evals int64
	var scs []explore.Scenario
	workers := []int{0, 1, 2, 3}
	if q {
		workers = []int{0, 2}
	}
	var collect map[string]string
	var collectMu sync.Mutex
	if os.Getenv("VERIF_COLLECT") != "" {
		collect = map[string]string{}
		defer func() {
			for k, v := range collect {
				fmt.Printf("CLASS %s\n      e.g. %s\n", k, v)
			}
		}()
	}
	for i, cfg := range bsiConfigs(true) {
		cfg := cfg
		depth := 3
		if q {
			depth = 2
		}
		b := &explore.BFS[*WB]{Name: "queries on " + cfg.Name, New: newWB(cfg), Ops: opsBSI(cfg, true), MaxDepth: depth, Key: keyBSI,
			Check: func(w *WB) *ev.Fail {
				if s := w.B.PlaneLeak(); s != "" {
					return nil // C19's business
				}
				return checkQueries(cfg, w, workers, &evals, func(f *ev.Fail) bool {
					f.Scenario = "queries on " + cfg.Name
					f.Case = "(state of the enclosing history)"
					f = withBSIShape(cfg, w, f)
					if collect != nil {
						collectMu.Lock()
						k := f.API + " | " + f.Shape
						if collect[k] == "" {
							collect[k] = f.What
						}
						collectMu.Unlock()
						return true
					}
					return c.R.Report(f)
				})
			}}
		b.Deadline = c.Budget(22*(i+1), 340*(i+1))
		scs = append(scs, b)
	}
	c.R.Assume("comparison constants lie within the index's current range; found-sets are sets of existing columns; sums and transposes are checked where the int64 / column-id results are representable")
	c.R.Assume("this check runs the goroutine fan-out paths under the free Go scheduler; schedule dependence and race freedom are decided by C12")
	runScenarios(c, scs...)
	c.R.SetExtra("query_evaluations", atomic.LoadInt64(&evals))
}

// withBSIShape refines the failure's shape with a predicate evaluated on the failing state,
// so that known findings match only the class of inputs they describe.
func withBSIShape(cfg bsiCfg, w *WB, f *ev.Fail) *ev.Fail {
	neg := false
	for _, v := range w.M {
		if v.Sign() < 0 {
			neg = true
		}
	}
	impl := "roaring64"
	if !cfg.Wide {
		impl = "BitSliceIndexing"
	}
	cls := "all stored values non-negative"
	if neg {
		cls = "some stored value negative"
	}
	f.Shape = impl + ":" + f.Shape + ":" + cls
	return f
}
