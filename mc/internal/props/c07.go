package props

import (
	"fmt"
	"runtime"
	"strings"
	"sync/atomic"

	"github.com/RoaringBitmap/roaring/v2"
	"verifmc/internal/ev"
	"verifmc/internal/explore"
	"verifmc/internal/extract"
	"verifmc/internal/model"
	"verifmc/internal/shapes"
)

func init() { Drivers["C07"] = Driver{Level: "model_checking", Run: runC07} }

type reg struct {
	Name string
	B    *roaring.Bitmap
	M    *model.Set32
	// Extras collects operands a creation step builds itself (observed like a and b).
	Extras *[]*reg
}

// c07Pool: operand shapes chosen so that chunks are aligned, interleaved,
// interior and trailing relative to one another, in all three kinds.
func c07Pool(quick bool) []recipe {
	A := bit(shapes.Lo, shapes.W, shapes.Mid)
	B := bit(shapes.S4095, shapes.Lo, shapes.Hi)
	R := bit(shapes.Big)
	F := bit(shapes.Full)
	type ks = []shapes.ChunkSpec
	specs := []ks{
		{{Key: 0, Mask: A}, {Key: 2, Mask: B}, {Key: 4, Mask: R}},
		{{Key: 0, Mask: B}, {Key: 2, Mask: R}, {Key: 4, Mask: A}},
		{{Key: 1, Mask: A}, {Key: 3, Mask: B}, {Key: 5, Mask: R}},
		{{Key: 6, Mask: A}, {Key: 7, Mask: R}},
		{{Key: 2, Mask: A}},
		{{Key: 3, Mask: B}},
		{{Key: 0, Mask: F}, {Key: 2, Mask: F}, {Key: 4, Mask: F}},
		{},
		{{Key: 0, Mask: A}},
		{{Key: 0xFFFF, Mask: R}},
		{{Key: 0, Mask: F}, {Key: 5, Mask: A}}, // wipes a whole leading chunk of the others, skips their middle keys
	}
	var rs []recipe
	if quick {
		for _, i := range []int{0, 1, 2, 3, 4, 5, 7, 9, 10} {
			rs = append(rs, specRecipe(shapes.Spec{Chunks: specs[i], Mode: shapes.Opt, Share: shapes.Plain}))
		}
		rs = append(rs, specRecipe(shapes.Spec{Chunks: specs[0], Mode: shapes.Opt, Share: shapes.COW}))
		rs = append(rs, specRecipe(shapes.Spec{Chunks: specs[10], Mode: shapes.Opt, Share: shapes.COW}))
		rs = append(rs, specRecipe(shapes.Spec{Chunks: specs[2], Mode: shapes.Opt, Share: shapes.ZeroC}))
		return rs
	}
	for _, cs := range specs {
		for _, sh := range []int{shapes.Plain, shapes.COW, shapes.ZeroC, shapes.Frozen} {
			if len(cs) == 0 && sh != shapes.Plain {
				continue
			}
			rs = append(rs, specRecipe(shapes.Spec{Chunks: cs, Mode: shapes.Opt, Share: sh}))
		}
	}
	return rs
}

type creation struct {
	Name string
	// F creates a new bitmap from a and b (or modifies a in place and returns nil).
	// It returns the model of the result (or of the new a).
	F func(a, b *reg) (*roaring.Bitmap, *model.Set32, *ev.Fail)
}

func variadic(name string, f func(...*roaring.Bitmap) *roaring.Bitmap, mf func([]*model.Set32) *model.Set32, pick func(a, b *reg) []*reg) creation {
	return creation{Name: name, F: func(a, b *reg) (*roaring.Bitmap, *model.Set32, *ev.Fail) {
		rs := pick(a, b)
		args := make([]*roaring.Bitmap, len(rs))
		ms := make([]*model.Set32, len(rs))
		for i, r := range rs {
			args[i], ms[i] = r.B, r.M
		}
		saved := append([]*roaring.Bitmap(nil), args...)
		out := f(args...)
		for i := range saved {
			if args[i] != saved[i] {
				return nil, nil, fail(name, "caller-slice-modified", "%s modified the caller's argument slice at index %d", name, i)
			}
		}
		for _, r := range rs {
			if out == r.B {
				return nil, nil, fail(name, "returns-input", "%s returned one of its input bitmaps itself instead of an independent bitmap", name)
			}
		}
		return out, mf(ms), nil
	}}
}

// third is a fixed extra operand whose only chunk (key 3) is interior / trailing relative to the pool shapes.
func third(key uint16) *reg {
	b := shapes.Spec{Chunks: []shapes.ChunkSpec{{Key: key, Mask: bit(shapes.Lo, shapes.Mid, shapes.Hi)}}}.Build()
	return &reg{Name: "c", B: b.B, M: b.M}
}

func foldOr(ms []*model.Set32) *model.Set32 {
	o := model.New32()
	for _, m := range ms {
		o = model.Or32(o, m)
	}
	return o
}
func foldXor(ms []*model.Set32) *model.Set32 {
	o := model.New32()
	for _, m := range ms {
		o = model.Xor32(o, m)
	}
	return o
}
func foldAnd(ms []*model.Set32) *model.Set32 {
	if len(ms) == 0 {
		return model.New32()
	}
	o := ms[0].Clone()
	for _, m := range ms[1:] {
		o = model.And32(o, m)
	}
	return o
}

func par(f func(int, ...*roaring.Bitmap) *roaring.Bitmap, n int) func(...*roaring.Bitmap) *roaring.Bitmap {
	return func(bs ...*roaring.Bitmap) *roaring.Bitmap { return f(n, bs...) }
}

func creations() []creation {
	ab := func(a, b *reg) []*reg { return []*reg{a, b} }
	ba := func(a, b *reg) []*reg { return []*reg{b, a} }
	one := func(a, b *reg) []*reg { return []*reg{a} }
	dup := func(a, b *reg) []*reg { return []*reg{a, b, a} }
	abcAt := func(key uint16) func(a, b *reg) []*reg {
		return func(a, b *reg) []*reg {
			c := third(key)
			if a.Extras != nil {
				*a.Extras = append(*a.Extras, c)
			}
			return []*reg{a, b, c}
		}
	}
	abc := abcAt(3)
	cab := func(a, b *reg) []*reg {
		c := third(3)
		if a.Extras != nil {
			*a.Extras = append(*a.Extras, c)
		}
		return []*reg{c, a, b}
	}
	withEmpty := func(a, b *reg) []*reg {
		return []*reg{a, {Name: "empty", B: roaring.New(), M: model.New32()}, b}
	}
	cs := []creation{
		{"Clone(a)", func(a, b *reg) (*roaring.Bitmap, *model.Set32, *ev.Fail) { return a.B.Clone(), a.M.Clone(), nil }},
	}
	for _, op := range binOps {
		op := op
		cs = append(cs, creation{op.Name + "(a,b)", func(a, b *reg) (*roaring.Bitmap, *model.Set32, *ev.Fail) {
			return op.Static(a.B, b.B), op.Model(a.M, b.M), nil
		}})
		cs = append(cs, creation{"a." + op.Name + "(b)", func(a, b *reg) (*roaring.Bitmap, *model.Set32, *ev.Fail) {
			op.InPlace(a.B, b.B)
			return nil, op.Model(a.M, b.M), nil
		}})
	}
	// the same bitmap as both operands of a static operation: the result must still be a bitmap of its own
	for _, op := range binOps {
		op := op
		if op.Name == "Xor" || op.Name == "AndNot" {
			continue // empty results have nothing to share
		}
		cs = append(cs, creation{op.Name + "(a,a)", func(a, b *reg) (*roaring.Bitmap, *model.Set32, *ev.Fail) {
			return op.Static(a.B, a.B), op.Model(a.M, a.M), nil
		}})
	}
	flip := func(name string, rng func(m *model.Set32) (uint64, uint64)) creation {
		return creation{name, func(a, b *reg) (*roaring.Bitmap, *model.Set32, *ev.Fail) {
			s, e := rng(a.M)
			m := a.M.Clone()
			m.FlipRange(s, e)
			return roaring.Flip(a.B, s, e), m, nil
		}}
	}
	cs = append(cs,
		flip("Flip(a, inside first chunk)", func(m *model.Set32) (uint64, uint64) {
			k := uint64(0)
			if ks := m.Keys(); len(ks) > 0 {
				k = uint64(ks[0]) << 16
			}
			return k + 10, k + 20
		}),
		flip("Flip(a, beyond last chunk)", func(m *model.Set32) (uint64, uint64) { return 9 << 16, 9<<16 + 5 }),
		flip("Flip(a, middle chunk)", func(m *model.Set32) (uint64, uint64) { return 2<<16 + 5, 3<<16 + 5 }),
		creation{"AddOffset(a,0)", func(a, b *reg) (*roaring.Bitmap, *model.Set32, *ev.Fail) {
			return roaring.AddOffset(a.B, 0), a.M.Clone(), nil
		}},
		creation{"AddOffset(a,65536)", func(a, b *reg) (*roaring.Bitmap, *model.Set32, *ev.Fail) {
			return roaring.AddOffset(a.B, 65536), a.M.Shift(65536), nil
		}},
		creation{"AddOffset64(a,-3)", func(a, b *reg) (*roaring.Bitmap, *model.Set32, *ev.Fail) {
			return roaring.AddOffset64(a.B, -3), a.M.Shift(-3), nil
		}},
		variadic("FastOr(a,b)", roaring.FastOr, foldOr, ab),
		variadic("FastOr(a)", roaring.FastOr, foldOr, one),
		variadic("FastOr(a,b,a)", roaring.FastOr, foldOr, dup),
		variadic("FastAnd(a,b)", roaring.FastAnd, foldAnd, ab),
		variadic("FastAnd(a)", roaring.FastAnd, foldAnd, one),
		variadic("FastAnd(a,a)", roaring.FastAnd, foldAnd, func(a, b *reg) []*reg { return []*reg{a, a} }),
		variadic("FastOr(a,a)", roaring.FastOr, foldOr, func(a, b *reg) []*reg { return []*reg{a, a} }),
		variadic("HeapOr(a,b)", roaring.HeapOr, foldOr, ab),
		variadic("HeapOr(a)", roaring.HeapOr, foldOr, one),
		variadic("HeapXor(a,b)", roaring.HeapXor, foldXor, ab),
		variadic("HeapXor(a)", roaring.HeapXor, foldXor, one),
		variadic("ParOr(2,a,b)", par(roaring.ParOr, 2), foldOr, ab),
		variadic("ParOr(2,b,a)", par(roaring.ParOr, 2), foldOr, ba),
		variadic("ParOr(2,a)", par(roaring.ParOr, 2), foldOr, one),
		variadic("ParOr(3,a,empty,b)", par(roaring.ParOr, 3), foldOr, withEmpty),
		variadic("ParOr(0,a,b,a)", par(roaring.ParOr, 0), foldOr, dup),
		variadic("ParOr(2,a,b,c)", par(roaring.ParOr, 2), foldOr, abc),
		variadic("ParOr(1,c,a,b)", par(roaring.ParOr, 1), foldOr, cab),
		variadic("ParOr(1,a,b,c@1)", par(roaring.ParOr, 1), foldOr, abcAt(1)),
		variadic("ParOr(2,a,b,c@1)", par(roaring.ParOr, 2), foldOr, abcAt(1)),
		variadic("ParOr(1,a,b,c@3)", par(roaring.ParOr, 1), foldOr, abcAt(3)),
		variadic("FastOr(a,b,c)", roaring.FastOr, foldOr, abc),
		// third operand on key 0: the lazy in-place union then meets a chunk that only one of the first two operands
		// holds (possibly a full run chunk, possibly shared with a copy-on-write sibling) and a later operand also has
		variadic("FastOr(a,b,c@0)", roaring.FastOr, foldOr, abcAt(0)),
		variadic("HeapOr(a,b,c@0)", roaring.HeapOr, foldOr, abcAt(0)),
		variadic("ParOr(2,a,b,c@0)", par(roaring.ParOr, 2), foldOr, abcAt(0)),
		variadic("ParHeapOr(2,a,b,c@0)", par(roaring.ParHeapOr, 2), foldOr, abcAt(0)),
		variadic("HeapOr(c,a,b)", roaring.HeapOr, foldOr, cab),
		variadic("HeapXor(a,b,c)", roaring.HeapXor, foldXor, abc),
		variadic("ParHeapOr(2,a,b,c)", par(roaring.ParHeapOr, 2), foldOr, abc),
		variadic("ParAnd(2,a,b,c)", par(roaring.ParAnd, 2), foldAnd, abc),
		variadic("FastAnd(c,a,b)", roaring.FastAnd, foldAnd, cab),
		variadic("ParAnd(2,a,b)", par(roaring.ParAnd, 2), foldAnd, ab),
		variadic("ParAnd(2,a)", par(roaring.ParAnd, 2), foldAnd, one),
		variadic("ParHeapOr(2,a,b)", par(roaring.ParHeapOr, 2), foldOr, ab),
		variadic("ParHeapOr(2,a)", par(roaring.ParHeapOr, 2), foldOr, one),
		variadic("ParHeapOr(2,a,empty,b)", par(roaring.ParHeapOr, 2), foldOr, withEmpty),
		creation{"a.AndAny(b)", func(a, b *reg) (*roaring.Bitmap, *model.Set32, *ev.Fail) {
			a.B.AndAny(b.B)
			return nil, model.And32(a.M, b.M), nil
		}},
		creation{"a.AndAny(b,b)", func(a, b *reg) (*roaring.Bitmap, *model.Set32, *ev.Fail) {
			a.B.AndAny(b.B, b.B)
			return nil, model.And32(a.M, b.M), nil
		}},
	)
	return cs
}

// cowConfigs: copy-on-write switches flipped before / after the creation step.
var cowConfigs = []struct {
	Name   string
	Before func(a, b *reg)
	After  func(a, b, c *reg)
}{
	{"none", nil, nil},
	{"a.SetCopyOnWrite(true) before", func(a, b *reg) { a.B.SetCopyOnWrite(true) }, nil},
	{"b.SetCopyOnWrite(true) before", func(a, b *reg) { b.B.SetCopyOnWrite(true) }, nil},
	{"both SetCopyOnWrite(true) before", func(a, b *reg) { a.B.SetCopyOnWrite(true); b.B.SetCopyOnWrite(true) }, nil},
	{"both true before, a false after", func(a, b *reg) { a.B.SetCopyOnWrite(true); b.B.SetCopyOnWrite(true) }, func(a, b, c *reg) { a.B.SetCopyOnWrite(false) }},
	{"result SetCopyOnWrite(true) after", nil, func(a, b, c *reg) {
		if c != nil {
			c.B.SetCopyOnWrite(true)
		}
	}},
	{"both true before, result false after", func(a, b *reg) { a.B.SetCopyOnWrite(true); b.B.SetCopyOnWrite(true) }, func(a, b, c *reg) {
		if c != nil {
			c.B.SetCopyOnWrite(false)
		}
	}},
}

// mutation of register t; others lists the other live registers (for in-place binary ops).
type mutation struct {
	Name string
	F    func(t *reg, others []*reg)
}

func firstPresent(m *model.Set32, k uint16) (uint32, bool) {
	c := m.M[k]
	if c == nil {
		return 0, false
	}
	for w, x := range c {
		if x != 0 {
			for b := 0; b < 64; b++ {
				if x&(1<<uint(b)) != 0 {
					return uint32(k)<<16 | uint32(w*64+b), true
				}
			}
		}
	}
	return 0, false
}

func firstAbsent(m *model.Set32, k uint16) (uint32, bool) {
	c := m.M[k]
	if c == nil {
		return uint32(k)<<16 | 77, true
	}
	for w, x := range c {
		if ^x != 0 {
			for b := 0; b < 64; b++ {
				if x&(1<<uint(b)) == 0 {
					return uint32(k)<<16 | uint32(w*64+b), true
				}
			}
		}
	}
	return 0, false
}

// perKeyMutations writes into every chunk of every key any register holds: these are
// the writes that expose a container shared without a copy-on-write flag.
func perKeyMutations(keys []uint16) []mutation {
	var ms []mutation
	for _, k := range keys {
		k := k
		ms = append(ms,
			mutation{fmt.Sprintf("Remove(first value of chunk %d)", k), func(t *reg, _ []*reg) {
				if p, ok := firstPresent(t.M, k); ok {
					t.B.Remove(p)
					t.M.Remove(p)
				}
			}},
			mutation{fmt.Sprintf("Add(first absent value of chunk %d)", k), func(t *reg, _ []*reg) {
				if p, ok := firstAbsent(t.M, k); ok {
					t.B.Add(p)
					t.M.Add(p)
				}
			}},
			mutation{fmt.Sprintf("Flip(chunk %d, 100..200)", k), func(t *reg, _ []*reg) {
				s := uint64(k)<<16 + 100
				t.B.Flip(s, s+100)
				t.M.FlipRange(s, s+100)
			}},
		)
	}
	return ms
}

func globalMutations() []mutation {
	ms := []mutation{
		{"RemoveRange(all)", func(t *reg, _ []*reg) { t.B.RemoveRange(0, 1<<32); t.M.RemoveRange(0, 1<<32) }},
		{"AddRange(0,8 chunks)", func(t *reg, _ []*reg) { t.B.AddRange(0, 8<<16); t.M.AddRange(0, 8<<16) }},
		{"Flip(5, 6 chunks)", func(t *reg, _ []*reg) { t.B.Flip(5, 6<<16); t.M.FlipRange(5, 6<<16) }},
		{"AddMany(one value per chunk 0..7)", func(t *reg, _ []*reg) {
			var vs []uint32
			for k := uint32(0); k < 8; k++ {
				vs = append(vs, k<<16|4321)
			}
			t.B.AddMany(vs)
			for _, v := range vs {
				t.M.Add(v)
			}
		}},
		{"RunOptimize", func(t *reg, _ []*reg) { t.B.RunOptimize() }},
		{"Clear", func(t *reg, _ []*reg) { t.B.Clear(); t.M.RemoveRange(0, 1<<32) }},
		{"CloneCopyOnWriteContainers", func(t *reg, _ []*reg) { t.B.CloneCopyOnWriteContainers() }},
	}
	for _, op := range binOps {
		op := op
		ms = append(ms, mutation{"t." + op.Name + "(other)", func(t *reg, others []*reg) {
			if len(others) == 0 {
				return
			}
			o := others[0]
			op.InPlace(t.B, o.B)
			t.M = op.Model(t.M, o.M)
		}})
	}
	return ms
}

func observe(regs []*reg, after string) *ev.Fail {
	for _, r := range regs {
		if got := extract.Of(r.B); !got.Equal(r.M) {
			return fail("interference", "register:"+r.Name, "after %s, bitmap %s no longer holds its own contents: %s", after, r.Name, diff32(got, r.M))
		}
	}
	return nil
}

func runC07(c *Ctx) {
	q := c.Quick()
	pool := c07Pool(q)
	crs := creations()
	keys := []uint16{0, 1, 2, 3, 4, 5, 6, 7, 0xFFFF}
	muts := append(perKeyMutations(keys), globalMutations()...)
	if q {
		muts = nil
		for i, m := range perKeyMutations(keys) {
			if i%3 != 2 { // quick: the in-place point writes per chunk, not the per-chunk Flip
				muts = append(muts, m)
			}
		}
		muts = append(muts, globalMutations()...)
	}
	var execs int64
	nTargets := 3
	// one case: inputs (a,b) x creation x cow config x (target register, mutation)
	caseRun := func(ai, bi, ci, wi, ti, mi int, second int) (string, *ev.Fail) {
		if second < 0 && bi != 0 && strings.HasSuffix(crs[ci].Name, "(a,a)") {
			return "self-creation: b plays no part", nil
		}
		ab, bb := pool[ai].Build(), pool[bi].Build()
		defer runtime.KeepAlive(ab)
		defer runtime.KeepAlive(bb)
		var extras []*reg
		a := &reg{Name: "a", B: ab.B, M: ab.M, Extras: &extras}
		b := &reg{Name: "b", B: bb.B, M: bb.M}
		cw := cowConfigs[wi]
		frozenOrZC := ab.Bytes != nil || bb.Bytes != nil
		if frozenOrZC && cw.Before != nil {
			return "skipped: SetCopyOnWrite on a zero-copy bitmap is documented as unsafe", nil
		}
		regs := []*reg{a, b}
		if ab.Keep != nil {
			regs = append(regs, &reg{Name: "sibling-of-a", B: ab.Keep, M: ab.M.Clone()})
		}
		if bb.Keep != nil {
			regs = append(regs, &reg{Name: "sibling-of-b", B: bb.Keep, M: bb.M.Clone()})
		}
		if cw.Before != nil {
			cw.Before(a, b)
		}
		cr := crs[ci]
		out, om, f := cr.F(a, b)
		atomic.AddInt64(&execs, 1)
		if f != nil {
			return "", f
		}
		regs = append(regs, extras...)
		var cReg *reg
		if out != nil {
			cReg = &reg{Name: "result", B: out, M: om}
			regs = append(regs, cReg)
		} else {
			a.M = om
		}
		if f := observe(regs, cr.Name); f != nil {
			f.API = cr.Name
			return "", f
		}
		if cw.After != nil {
			if frozenOrZC && wi == 4 {
				return "skipped", nil
			}
			cw.After(a, b, cReg)
		}
		// chain: a second creation from the created bitmap
		if second >= 0 && cReg != nil {
			cr2 := crs[second]
			out2, om2, f := cr2.F(cReg, a)
			if f != nil {
				return "", f
			}
			if out2 != nil {
				regs = append(regs, &reg{Name: "result2", B: out2, M: om2})
			} else {
				cReg.M = om2
			}
			if f := observe(regs, cr.Name+"; "+cr2.Name+"(result,a)"); f != nil {
				f.API = cr2.Name
				return "", f
			}
		}
		// target register
		var t *reg
		switch ti {
		case 0:
			t = a
		case 1:
			t = b
			if len(extras) > 0 {
				t = extras[0] // the creation step's own third operand
			}
		default:
			t = regs[len(regs)-1] // the newest bitmap (result / result2 / sibling)
		}
		var others []*reg
		for _, r := range regs {
			if r != t {
				others = append(others, r)
			}
		}
		// in-place ops take the newest other register as argument
		if len(others) > 1 {
			others = []*reg{others[len(others)-1]}
		}
		m := muts[mi]
		m.F(t, others)
		atomic.AddInt64(&execs, 1)
		if f := observe(regs, cr.Name+" ["+cw.Name+"]; "+t.Name+"."+m.Name); f != nil {
			f.API = cr.Name
			return "", f
		}
		return cr.Name, nil
	}
	p1 := &explore.Product{Name: "inputs^2 x creation x cow switch x (register, mutation)", Deadline: c.Budget(115, 1500), Execs: &execs,
		Dims: []int{len(pool), len(pool), len(crs), len(cowConfigs), nTargets, len(muts)},
		Run: func(idx []int) (string, *ev.Fail) {
			return caseRun(idx[0], idx[1], idx[2], idx[3], idx[4], idx[5], -1)
		},
		Describe: func(idx []int) any {
			return map[string]any{"a": pool[idx[0]].Name, "b": pool[idx[1]].Name, "creation": crs[idx[2]].Name, "cow": cowConfigs[idx[3]].Name, "target": []string{"a", "b", "newest"}[idx[4]], "mutation": muts[idx[5]].Name}
		}}
	if q {
		// quick: four of the seven copy-on-write configurations
		cw := []int{0, 3}
		p1.Dims[3] = len(cw)
		p1.Run = func(idx []int) (string, *ev.Fail) {
			return caseRun(idx[0], idx[1], idx[2], cw[idx[3]], idx[4], idx[5], -1)
		}
		p1.Describe = func(idx []int) any {
			return map[string]any{"a": pool[idx[0]].Name, "b": pool[idx[1]].Name, "creation": crs[idx[2]].Name, "cow": cowConfigs[cw[idx[3]]].Name, "target": []string{"a", "b", "newest"}[idx[4]], "mutation": muts[idx[5]].Name}
		}
	}
	scs := []explore.Scenario{p1}
	if !q {
		// creation chains of length 2 on a sub-pool
		sub := []int{0, 2, 4, 8, 12}
		var execs2 int64
		p2 := &explore.Product{Name: "creation chains of length 2", Deadline: c.Budget(0, 1750), Execs: &execs2,
			Dims: []int{len(sub), len(sub), len(crs), len(crs), 3, nTargets, len(muts)},
			Run: func(idx []int) (string, *ev.Fail) {
				wi := []int{0, 3, 5}[idx[4]]
				s, f := caseRun(sub[idx[0]%len(sub)]%len(pool), sub[idx[1]]%len(pool), idx[2], wi, idx[5], idx[6], idx[3])
				atomic.AddInt64(&execs2, 3)
				return s, f
			},
			Describe: func(idx []int) any {
				return map[string]any{"a": pool[sub[idx[0]]%len(pool)].Name, "b": pool[sub[idx[1]]%len(pool)].Name, "creation": crs[idx[2]].Name, "then": crs[idx[3]].Name + "(result,a)", "cow": cowConfigs[[]int{0, 3, 5}[idx[4]]].Name, "target": idx[5], "mutation": muts[idx[6]].Name}
			}}
		scs = append(scs, p2)
	}
	scs = append(scs, c07Scenario64(c))
	pb := pairBFS("copy-on-write pair closure (unstructured histories)", q, 3, false)
	if !q {
		pb.MaxDepth = 4
	}
	pb.Deadline = c.Budget(30, 1795)
	if q {
		// quick: the cheap closure first (its deadline is an absolute time), then the two products
		scs = append([]explore.Scenario{pb}, scs...)
	} else {
		scs = append(scs, pb)
	}
	runScenarios(c, scs...)
}
