package props

import (
	"github.com/RoaringBitmap/roaring/v2"
	"verifmc/internal/model"
)

// mspec describes one marginal run chunk: the range [base, base+R) plus K isolated values at stride 4 (offset Off),
// placed beyond the range or inside the other operand's range, optionally run-optimised.
type mspec struct {
	R, K, Off int
	Inside    bool
	Opt       bool
}

type mop struct {
	Name string
	F    func(a, b *roaring.Bitmap) *roaring.Bitmap
	M    func(a, b *model.Set32) *model.Set32
}

// marginalFamily: chunks in the proportion where the run encoding barely wins (or barely loses) against the array
// encoding, and 21 operations on pairs of them. The union / difference of two such chunks has many more runs than
// either operand, so an operation that keeps "the encoding of the receiver" overshoots the size bound (C14) or leaves
// a non-canonical chunk (C09).
func marginalFamily(q bool) ([]mspec, func(mspec) (*roaring.Bitmap, *model.Set32), []mop) {
	var mspecs []mspec
	rs, ks := []int{9, 64, 600, 1000, 4000, 9000}, []int{0, 5, 300, 900, 2500}
	if q {
		rs, ks = []int{9, 1000, 4000}, []int{5, 900}
	}
	for _, r := range rs {
		for _, k := range ks {
			for off := 0; off < 3; off++ {
				for _, in := range []bool{false, true} {
					for _, opt := range []bool{false, true} {
						if (k == 0 && (off > 0 || in)) || (in && 4*k+off+3 > r+4*k/2) {
							continue
						}
						mspecs = append(mspecs, mspec{r, k, off, in, opt})
					}
				}
			}
		}
	}
	// a full chunk (run-encoded, and as a bitmap chunk): receivers whose intersection shortcuts hand back "a copy of
	// the argument", whatever form the argument is in
	mspecs = append(mspecs, mspec{R: 65536, Opt: true}, mspec{R: 65536})
	mbuild := func(sp mspec) (*roaring.Bitmap, *model.Set32) {
		b, m := roaring.New(), model.New32()
		base := uint64(3) << 16
		b.AddRange(base, base+uint64(sp.R))
		m.AddRange(base, base+uint64(sp.R))
		start := base + uint64(sp.R) + 100
		if sp.Inside {
			start = base + 3 // the isolated values of this operand fall inside the other operand's range
		}
		for i := 0; i < sp.K; i++ {
			x := uint32(start) + uint32(sp.Off) + uint32(4*i)
			b.Add(x)
			m.Add(x)
		}
		if sp.Opt {
			b.RunOptimize()
		}
		return b, m
	}
	mops := []mop{}
	for _, op := range binOps {
		op := op
		mops = append(mops, mop{op.Name + "(a,b)", op.Static, op.Model},
			mop{"a." + op.Name + "(b)", func(a, b *roaring.Bitmap) *roaring.Bitmap { op.InPlace(a, b); return a }, op.Model})
	}
	or3 := func(a, b *model.Set32) *model.Set32 { return model.Or32(a, b) }
	xor3 := func(a, b *model.Set32) *model.Set32 { return model.Xor32(a, b) }
	mops = append(mops,
		mop{"FastOr(a,b)", func(a, b *roaring.Bitmap) *roaring.Bitmap { return roaring.FastOr(a, b) }, or3},
		mop{"FastOr(a,b,a)", func(a, b *roaring.Bitmap) *roaring.Bitmap { return roaring.FastOr(a, b, a) }, or3},
		mop{"HeapOr(a,b)", func(a, b *roaring.Bitmap) *roaring.Bitmap { return roaring.HeapOr(a, b) }, or3},
		mop{"HeapOr(a,b,a)", func(a, b *roaring.Bitmap) *roaring.Bitmap { return roaring.HeapOr(a, b, a) }, or3},
		mop{"ParOr(2,a,b)", func(a, b *roaring.Bitmap) *roaring.Bitmap { return roaring.ParOr(2, a, b) }, or3},
		mop{"ParHeapOr(2,a,b)", func(a, b *roaring.Bitmap) *roaring.Bitmap { return roaring.ParHeapOr(2, a, b) }, or3},
		mop{"HeapXor(a,b)", func(a, b *roaring.Bitmap) *roaring.Bitmap { return roaring.HeapXor(a, b) }, xor3},
		mop{"FastAnd(a,b)", func(a, b *roaring.Bitmap) *roaring.Bitmap { return roaring.FastAnd(a, b) }, func(a, b *model.Set32) *model.Set32 { return model.And32(a, b) }},
		mop{"ParAnd(2,a,b)", func(a, b *roaring.Bitmap) *roaring.Bitmap { return roaring.ParAnd(2, a, b) }, func(a, b *model.Set32) *model.Set32 { return model.And32(a, b) }},
		mop{"a.AndAny(b,b)", func(a, b *roaring.Bitmap) *roaring.Bitmap { a.AndAny(b, b); return a }, func(a, b *model.Set32) *model.Set32 { return model.And32(a, b) }},
		mop{"Flip(a, span of b)", func(a, b *roaring.Bitmap) *roaring.Bitmap {
			if b.IsEmpty() {
				return a.Clone()
			}
			return roaring.Flip(a, uint64(b.Minimum()), uint64(b.Maximum())+1)
		}, func(a, b *model.Set32) *model.Set32 {
			r := a.Clone()
			if mn, ok := b.Min(); ok {
				mx, _ := b.Max()
				r.FlipRange(uint64(mn), uint64(mx)+1)
			}
			return r
		}},
		mop{"a.RemoveRange(span of b)", func(a, b *roaring.Bitmap) *roaring.Bitmap {
			if !b.IsEmpty() {
				a.RemoveRange(uint64(b.Minimum()), uint64(b.Maximum())+1)
			}
			return a
		}, func(a, b *model.Set32) *model.Set32 {
			r := a.Clone()
			if mn, ok := b.Min(); ok {
				mx, _ := b.Max()
				r.RemoveRange(uint64(mn), uint64(mx)+1)
			}
			return r
		}},
		mop{"a.AddRange(span of b)", func(a, b *roaring.Bitmap) *roaring.Bitmap {
			if !b.IsEmpty() {
				a.AddRange(uint64(b.Minimum()), uint64(b.Maximum())+1)
			}
			return a
		}, func(a, b *model.Set32) *model.Set32 {
			r := a.Clone()
			if mn, ok := b.Min(); ok {
				mx, _ := b.Max()
				r.AddRange(uint64(mn), uint64(mx)+1)
			}
			return r
		}},
	)
	return mspecs, mbuild, mops
}
