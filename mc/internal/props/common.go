// Package props holds one driver per property: alphabet + oracle + bounds.
package props

import (
	"encoding/json"
	"fmt"
	"sort"
	"sync/atomic"
	"time"
	"verifmc/internal/shapes"
	"verifmc/internal/spec"

	"github.com/RoaringBitmap/roaring/v2"
	"verifmc/internal/ev"
	"verifmc/internal/explore"
	"verifmc/internal/extract"
	"verifmc/internal/model"
)

// Ctx is what a driver gets.
type Ctx struct {
	R      *ev.Run
	Tier   string
	Replay *ev.ReplayDoc
	Start  time.Time
}

func (c *Ctx) Quick() bool { return c.Tier != "thorough" }

// Budget returns a deadline: quick/thorough seconds from now.
func (c *Ctx) Budget(quickS, thoroughS int) time.Time {
	s := quickS
	if !c.Quick() {
		s = thoroughS
	}
	return time.Now().Add(time.Duration(s) * time.Second)
}

type Driver struct {
	Level string
	Run   func(c *Ctx)
}

var Drivers = map[string]Driver{}

// CageFamilies: case families executed in worker subprocesses (see env/cage.go).
// A family returns the number of cases and the function that runs case id.
var CageFamilies = map[string]func(tier string) (int, func(id int) string){}

func ids() []string {
	var o []string
	for k := range Drivers {
		o = append(o, k)
	}
	sort.Strings(o)
	return o
}

func IDs() []string { return ids() }

func runScenarios(c *Ctx, scs ...explore.Scenario) { explore.RunAll(c.R, scs, c.Replay) }

// corpusReadback reports what shapes.Build recorded while the corpus was built: every zero-copy / frozen corpus entry
// is the library reading back bytes it has just written, so an error there is a round-trip violation (the entry itself
// falls back to the plain bitmap). Only the serialization checks include this scenario; checks of properties that say
// nothing about serialization stay silent about it. The corpus is rebuilt on replay, so the case reproduces.
func corpusReadback(c *Ctx, name string, words ...string) explore.Scenario {
	var n int64
	return &explore.Product{Name: name, Dims: []int{1}, Deadline: c.Budget(30, 300), Execs: &n,
		Run: func(idx []int) (string, *ev.Fail) {
			atomic.AddInt64(&n, 1)
			if es := shapes.BuildErrors(words...); len(es) > 0 {
				return "", fail(es[0].Step, "readback", "the library cannot read back what it wrote for %s: %s (%d corpus entries affected)", es[0].Spec, es[0].Err, len(es))
			}
			return "ok", nil
		}, Describe: func(idx []int) any { return "all zero-copy / frozen corpus entries" }}
}

// readOnlyGuard snapshots a bitmap before a battery of read-only calls; the returned function reports a failure if
// the battery changed the contents or the representation (copy-on-write flags may be gained, never lost).
func readOnlyGuard(api string, b *roaring.Bitmap, m *model.Set32) func() *ev.Fail {
	before := roaring.VerifViewOf(b)
	sig := sigNoFlags(before)
	return func() *ev.Fail {
		after := roaring.VerifViewOf(b)
		for i := range after.Chunks {
			if i < len(before.Chunks) && before.Chunks[i].COW && !after.Chunks[i].COW {
				return fail(api, "cleared-cow-flag", "read-only %s calls cleared the copy-on-write flag of chunk %d", api, after.Chunks[i].Key)
			}
		}
		if s := sigNoFlags(after); s != sig {
			return fail(api, "modified-representation", "read-only %s calls changed the representation: %s -> %s", api, sig, s)
		}
		if got := extract.Content(after); !got.Equal(m) {
			return fail(api, "modified-content", "read-only %s calls changed the contents: %s", api, diff32(got, m))
		}
		return nil
	}
}

// ---- 32-bit world: one register, used by C02 and others ----

type W32 struct {
	B *roaring.Bitmap
	M *model.Set32
}

func newW32() *W32 { return &W32{B: roaring.New(), M: model.New32()} }

func fail(api, shape, format string, a ...any) *ev.Fail {
	return &ev.Fail{API: api, Shape: shape, What: fmt.Sprintf(format, a...)}
}

// sliceEq compares two uint32 slices.
func sliceEq(a, b []uint32) bool {
	if len(a) != len(b) {
		return false
	}
	for i := range a {
		if a[i] != b[i] {
			return false
		}
	}
	return true
}

// diff32 describes the first difference between observed and expected content.
func diff32(got, want *model.Set32) string {
	g, w := got.Slice(), want.Slice()
	i := 0
	for i < len(g) && i < len(w) && g[i] == w[i] {
		i++
	}
	switch {
	case i < len(g) && (i >= len(w) || g[i] < w[i]):
		return fmt.Sprintf("card got %d want %d; first difference: %d (0x%x) present but must be absent", len(g), len(w), g[i], g[i])
	case i < len(w):
		return fmt.Sprintf("card got %d want %d; first difference: %d (0x%x) absent but must be present", len(g), len(w), w[i], w[i])
	}
	return "equal"
}

// checkState32 is the per-state oracle shared by the 32-bit scenarios:
// independently extracted content == model, public accessors agree, and the
// C09 invariants (Validate and the independent walk) hold.
func checkState32(api string, b *roaring.Bitmap, m *model.Set32, deep bool) *ev.Fail {
	v := roaring.VerifViewOf(b)
	got := extract.Content(v)
	if !got.Equal(m) {
		return fail(api, "content", "content differs from model after %s: %s [repr %s]", api, diff32(got, m), extract.Sig(v, false))
	}
	card := m.Card()
	if c := b.GetCardinality(); c != card {
		return fail(api, "cardinality", "GetCardinality() = %d, model %d after %s", c, card, api)
	}
	if b.IsEmpty() != (card == 0) {
		return fail(api, "isempty", "IsEmpty() = %v, model card %d after %s", b.IsEmpty(), card, api)
	}
	if deep {
		if a := b.ToArray(); !sliceEq(a, m.Slice()) {
			return fail(api, "toarray", "ToArray() differs from model after %s (len %d vs %d)", api, len(a), card)
		}
	}
	return nil
}

// checkValid32 is property C09's per-state oracle: Validate()==nil and the
// independent invariant walk.
func checkValid32(api string, b *roaring.Bitmap) *ev.Fail {
	v := roaring.VerifViewOf(b)
	if s := extract.Invariants(v); s != "" {
		return fail(api, "invariant", "representation invariant broken after %s: %s [repr %s]", api, s, extract.Sig(v, false))
	}
	if err := b.Validate(); err != nil {
		return fail(api, "validate:"+err.Error(), "Validate() = %v after %s [repr %s]", err, api, extract.Sig(v, false))
	}
	return nil
}

func key32(b *roaring.Bitmap, m *model.Set32) string {
	return fmt.Sprintf("%016x#%s", m.Hash(), extract.Sig(roaring.VerifViewOf(b), true))
}

func jsonUnmarshal(raw []byte, v any) error { return json.Unmarshal(raw, v) }

// specDecode parses a portable 32-bit stream with the independent decoder.
func specDecode(b []byte) ([]spec.Chunk, int, error) { return spec.DecodePortable(b, false) }

func extractOf(b *roaring.Bitmap) *model.Set32 { return extract.Of(b) }
