package props

import (
	"fmt"
	"runtime"
	"sync"

	"github.com/RoaringBitmap/roaring/v2"
	"verifmc/internal/ev"
	"verifmc/internal/explore"
	"verifmc/internal/extract"
	"verifmc/internal/model"
	"verifmc/internal/shapes"
)

// recipe builds a fresh operand (real bitmap + model) every time it is called.
type recipe struct {
	Name  string
	Build func() *shapes.Built
}

func specRecipe(s shapes.Spec) recipe { return recipe{Name: s.String(), Build: s.Build} }

// dedupe keeps one recipe per (content, representation signature, sharing).
func dedupe(rs []recipe) []recipe {
	seen := map[string]bool{}
	var out []recipe
	for _, r := range rs {
		b := r.Build()
		defer runtime.KeepAlive(b)
		k := fmt.Sprintf("%x|%s|%v|%v", b.M.Hash(), extract.Sig(roaring.VerifViewOf(b.B), false), b.Keep != nil, b.Bytes != nil)
		if seen[k] {
			continue
		}
		seen[k] = true
		out = append(out, r)
	}
	return out
}

type binCall struct {
	Name    string
	Static  func(a, b *roaring.Bitmap) *roaring.Bitmap
	InPlace func(a, b *roaring.Bitmap)
	Model   func(a, b *model.Set32) *model.Set32
}

var binOps = []binCall{
	{"And", roaring.And, func(a, b *roaring.Bitmap) { a.And(b) }, model.And32},
	{"Or", roaring.Or, func(a, b *roaring.Bitmap) { a.Or(b) }, model.Or32},
	{"Xor", roaring.Xor, func(a, b *roaring.Bitmap) { a.Xor(b) }, model.Xor32},
	{"AndNot", roaring.AndNot, func(a, b *roaring.Bitmap) { a.AndNot(b) }, model.AndNot32},
}

// callNames: 0..3 static, 4..7 in-place, 8 AndCardinality, 9 OrCardinality, 10 Intersects.
const nPairCalls = 11

func pairCallName(i int) string {
	switch {
	case i < 4:
		return binOps[i].Name + "(a,b)"
	case i < 8:
		return "a." + binOps[i-4].Name + "(b)"
	case i == 8:
		return "a.AndCardinality(b)"
	case i == 9:
		return "a.OrCardinality(b)"
	}
	return "a.Intersects(b)"
}

type pairStats struct {
	mu sync.Mutex
	m  map[string]int
}

func (p *pairStats) add(k string) {
	p.mu.Lock()
	p.m[k]++
	p.mu.Unlock()
}

func kindPairs(va, vb roaring.VerifView) []string {
	// pairings of chunk kinds on aligned keys
	var out []string
	j := 0
	for i := range va.Chunks {
		for j < len(vb.Chunks) && vb.Chunks[j].Key < va.Chunks[i].Key {
			j++
		}
		if j < len(vb.Chunks) && vb.Chunks[j].Key == va.Chunks[i].Key {
			s := func(c roaring.VerifChunk) string {
				k := "BAR"[c.Kind : c.Kind+1]
				if c.COW {
					k += "c"
				}
				return k
			}
			out = append(out, s(va.Chunks[i])+"x"+s(vb.Chunks[j]))
		}
	}
	return out
}

// runPairCall executes call number ci on freshly built operands and checks
// the result against the model; strict adds property C09's oracle on results.
func runPairCall(ra, rb recipe, ci int, strict bool, st *pairStats) (string, *ev.Fail) {
	a, b := ra.Build(), rb.Build()
	defer runtime.KeepAlive(a)
	defer runtime.KeepAlive(b)
	if st != nil {
		for _, k := range kindPairs(roaring.VerifViewOf(a.B), roaring.VerifViewOf(b.B)) {
			st.add(k)
		}
	}
	name := pairCallName(ci)
	a0 := a.M
	unchanged := func(who string, x *shapes.Built) *ev.Fail {
		if got := extract.Of(x.B); !got.Equal(x.M) {
			return fail(name, "operand-modified:"+who, "%s modified operand %s: %s", name, who, diff32(got, x.M))
		}
		return nil
	}
	var out string
	switch {
	case ci < 4:
		op := binOps[ci]
		r := op.Static(a.B, b.B)
		want := op.Model(a.M, b.M)
		if got := extract.Of(r); !got.Equal(want) {
			return "", fail(name, "result", "%s wrong: %s", name, diff32(got, want))
		}
		if c := r.GetCardinality(); c != want.Card() {
			return "", fail(name, "result-cardinality", "%s result GetCardinality()=%d want %d", name, c, want.Card())
		}
		if strict {
			if f := checkValid32(name, r); f != nil {
				return "", f
			}
		}
		out = fmt.Sprint(want.Card() == 0)
	case ci < 8:
		op := binOps[ci-4]
		op.InPlace(a.B, b.B)
		want := op.Model(a.M, b.M)
		if got := extract.Of(a.B); !got.Equal(want) {
			return "", fail(name, "result", "%s wrong: %s", name, diff32(got, want))
		}
		if c := a.B.GetCardinality(); c != want.Card() {
			return "", fail(name, "result-cardinality", "%s receiver GetCardinality()=%d want %d", name, c, want.Card())
		}
		if strict {
			if f := checkValid32(name, a.B); f != nil {
				return "", f
			}
		}
		a.M = want
		out = fmt.Sprint(want.Card() == 0)
	case ci == 8:
		got, want := a.B.AndCardinality(b.B), model.And32(a.M, b.M).Card()
		if got != want {
			return "", fail(name, "value", "%s = %d want %d", name, got, want)
		}
		out = fmt.Sprint(want == 0)
	case ci == 9:
		got, want := a.B.OrCardinality(b.B), model.Or32(a.M, b.M).Card()
		if got != want {
			return "", fail(name, "value", "%s = %d want %d", name, got, want)
		}
		out = fmt.Sprint(want == 0)
	default:
		got, want := a.B.Intersects(b.B), !model.And32(a.M, b.M).IsEmpty()
		if got != want {
			return "", fail(name, "value", "%s = %v want %v", name, got, want)
		}
		out = fmt.Sprint(want)
	}
	if f := unchanged("a", a); f != nil {
		return "", f
	}
	if f := unchanged("b", b); f != nil {
		return "", f
	}
	if a.Keep != nil {
		if got := extract.Of(a.Keep); !got.Equal(a0) {
			return "", fail(name, "sibling-modified:a", "%s changed the copy-on-write sibling of a: %s", name, diff32(got, a0))
		}
	}
	if b.Keep != nil {
		if got := extract.Of(b.Keep); !got.Equal(b.M) {
			return "", fail(name, "sibling-modified:b", "%s changed the copy-on-write sibling of b: %s", name, diff32(got, b.M))
		}
	}
	return name + out, nil
}

// selfCalls: the same object as both operands.
const nSelfCalls = 11

func runSelfCall(ra recipe, ci int, strict bool) (string, *ev.Fail) {
	a := ra.Build()
	defer runtime.KeepAlive(a)
	name := "self:" + pairCallName(ci)
	empty := model.New32()
	var want *model.Set32
	switch ci % 4 {
	case 0, 1:
		want = a.M
	default:
		want = empty
	}
	switch {
	case ci < 4:
		r := binOps[ci].Static(a.B, a.B)
		if got := extract.Of(r); !got.Equal(want) {
			return "", fail(name, "result", "%s wrong: %s", name, diff32(got, want))
		}
		if strict {
			if f := checkValid32(name, r); f != nil {
				return "", f
			}
		}
		if got := extract.Of(a.B); !got.Equal(a.M) {
			return "", fail(name, "operand-modified:a", "%s modified its operand: %s", name, diff32(got, a.M))
		}
	case ci < 8:
		binOps[ci-4].InPlace(a.B, a.B)
		if got := extract.Of(a.B); !got.Equal(want) {
			return "", fail(name, "result", "%s wrong: %s", name, diff32(got, want))
		}
		if strict {
			if f := checkValid32(name, a.B); f != nil {
				return "", f
			}
		}
	case ci == 8:
		if got := a.B.AndCardinality(a.B); got != a.M.Card() {
			return "", fail(name, "value", "%s = %d want %d", name, got, a.M.Card())
		}
	case ci == 9:
		if got := a.B.OrCardinality(a.B); got != a.M.Card() {
			return "", fail(name, "value", "%s = %d want %d", name, got, a.M.Card())
		}
	default:
		if got := a.B.Intersects(a.B); got != !a.M.IsEmpty() {
			return "", fail(name, "value", "%s = %v want %v", name, got, !a.M.IsEmpty())
		}
	}
	return name, nil
}

// pairProduct is the complete product pool x pool x calls.
func pairProduct(name string, pool []recipe, strict bool) *explore.Product {
	st := &pairStats{m: map[string]int{}}
	extra := map[string]any{"pool": len(pool)}
	p := &explore.Product{
		Name: name, Dims: []int{len(pool), len(pool), nPairCalls}, Extra: extra,
		Run: func(idx []int) (string, *ev.Fail) {
			var s *pairStats
			if idx[2] == 0 {
				s = st
			}
			return runPairCall(pool[idx[0]], pool[idx[1]], idx[2], strict, s)
		},
		Describe: func(idx []int) any {
			return map[string]string{"a": pool[idx[0]].Name, "b": pool[idx[1]].Name, "call": pairCallName(idx[2])}
		},
	}
	extra["kind_pairings"] = st.m
	return p
}

func selfProduct(name string, pool []recipe, strict bool) *explore.Product {
	return &explore.Product{
		Name: name, Dims: []int{len(pool), nSelfCalls}, Extra: map[string]any{"pool": len(pool)},
		Run: func(idx []int) (string, *ev.Fail) { return runSelfCall(pool[idx[0]], idx[1], strict) },
		Describe: func(idx []int) any {
			return map[string]string{"a": pool[idx[0]].Name, "call": "self:" + pairCallName(idx[1])}
		},
	}
}
