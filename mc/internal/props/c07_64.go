package props

import (
	"fmt"
	"strings"

	"github.com/RoaringBitmap/roaring/v2/roaring64"
	"verifmc/internal/ev"
	"verifmc/internal/explore"
	"verifmc/internal/extract"
	"verifmc/internal/model"
)

type reg64 struct {
	Name  string
	B     *roaring64.Bitmap
	M     *model.Set64
	Third *reg64 // a third operand for the three-way creations (set on register a by the scenario)
}

// third64 is the third operand of the three-way aggregates: buckets 0, 3 and 7, so that it brings keys below,
// between and above the keys of the other operands (ParOr then inserts its buckets into a partial result).
func third64() *reg64 {
	r := &reg64{Name: "c", B: roaring64.New(), M: model.New64()}
	for _, v := range []uint64{5, 70000, 3<<32 + 1, 3<<32 + 65536, 7<<32 + 9} {
		r.B.Add(v)
		r.M.Add(v)
	}
	return r
}

// bucketWrites writes into every bucket any register holds: first present value removed, first absent value added.
func bucketWrites(regs []*reg64) []func(t *reg64) string {
	seen := map[uint32]bool{}
	var ws []func(t *reg64) string
	for _, r := range regs {
		for _, iv := range r.M.Iv {
			for _, bk := range []uint32{uint32(iv[0] >> 32), uint32(iv[1] >> 32)} {
				if seen[bk] {
					continue
				}
				seen[bk] = true
				bk := bk
				ws = append(ws, func(t *reg64) string {
					lo, hi := uint64(bk)<<32, uint64(bk)<<32|0xFFFFFFFF
					if vs := t.M.From(lo, 1); len(vs) == 1 && vs[0] <= hi {
						t.B.Remove(vs[0])
						t.M.Remove(vs[0])
						return fmt.Sprintf("Remove(%#x)", vs[0])
					}
					return "noop"
				}, func(t *reg64) string {
					lo := uint64(bk) << 32
					for x := lo + 77; x < lo+200; x++ {
						if !t.M.Contains(x) {
							t.B.Add(x)
							t.M.Add(x)
							return fmt.Sprintf("Add(%#x)", x)
						}
					}
					return "noop"
				})
			}
		}
	}
	ws = append(ws, func(t *reg64) string {
		t.B.RemoveRange(0, ^uint64(0))
		t.M.RemoveRange(0, ^uint64(0))
		return "RemoveRange(all)"
	})
	ws = append(ws, func(t *reg64) string { t.B.Flip(5, 1<<32+5); t.M.FlipRange(5, 1<<32+5); return "Flip(5,2^32+5)" })
	return ws
}

func observe64(regs []*reg64, after string) *ev.Fail {
	for _, r := range regs {
		if got := extract.Of64(r.B); !got.Equal(r.M) {
			return fail("interference", "register:"+r.Name, "after %s, 64-bit bitmap %s no longer holds its own contents: %s", after, r.Name, diff64(got, r.M))
		}
	}
	return nil
}

type creation64 struct {
	Name  string
	F     func(a, b *reg64) (*roaring64.Bitmap, *model.Set64, *ev.Fail)
	Three bool // uses a.Third
}

func creations64() []creation64 {
	cs := []creation64{{Name: "Clone(a)", F: func(a, b *reg64) (*roaring64.Bitmap, *model.Set64, *ev.Fail) { return a.B.Clone(), a.M.Clone(), nil }}}
	for _, op := range binOps64 {
		op := op
		cs = append(cs, creation64{Name: op.Name + "(a,b)", F: func(a, b *reg64) (*roaring64.Bitmap, *model.Set64, *ev.Fail) {
			return op.Static(a.B, b.B), op.Model(a.M, b.M), nil
		}}, creation64{Name: "a." + op.Name + "(b)", F: func(a, b *reg64) (*roaring64.Bitmap, *model.Set64, *ev.Fail) {
			op.InPlace(a.B, b.B)
			return nil, op.Model(a.M, b.M), nil
		}})
	}
	// the same bitmap as both operands of a static operation: the result must still be a bitmap of its own
	for _, op := range binOps64 {
		op := op
		if op.Name == "Xor" || op.Name == "AndNot" {
			continue
		}
		cs = append(cs, creation64{Name: op.Name + "(a,a)", F: func(a, b *reg64) (*roaring64.Bitmap, *model.Set64, *ev.Fail) {
			return op.Static(a.B, a.B), op.Model(a.M, a.M), nil
		}})
	}
	for _, v := range []struct {
		name string
		f    func(...*roaring64.Bitmap) *roaring64.Bitmap
	}{{"FastAnd(a,a)", roaring64.FastAnd}, {"FastOr(a,a)", roaring64.FastOr}, {"ParOr(2,a,a)", func(bs ...*roaring64.Bitmap) *roaring64.Bitmap { return roaring64.ParOr(2, bs...) }}} {
		v := v
		cs = append(cs, creation64{Name: v.name, F: func(a, b *reg64) (*roaring64.Bitmap, *model.Set64, *ev.Fail) {
			out := v.f(a.B, a.B)
			if out == a.B {
				return nil, nil, fail(v.name, "returns-input", "%s returned its input bitmap itself instead of an independent bitmap", v.name)
			}
			return out, a.M.Clone(), nil
		}})
	}
	vari := func(name string, f func(...*roaring64.Bitmap) *roaring64.Bitmap, mf func(a, b *model.Set64) *model.Set64, single bool) creation64 {
		return creation64{Name: name, F: func(a, b *reg64) (*roaring64.Bitmap, *model.Set64, *ev.Fail) {
			args := []*roaring64.Bitmap{a.B, b.B}
			want := mf(a.M, b.M)
			if single {
				args = args[:1]
				want = a.M.Clone()
			}
			saved := append([]*roaring64.Bitmap(nil), args...)
			out := f(args...)
			for i := range saved {
				if args[i] != saved[i] {
					return nil, nil, fail(name, "caller-slice-modified", "%s modified the caller's argument slice", name)
				}
				if out == saved[i] {
					return nil, nil, fail(name, "returns-input", "%s returned one of its input bitmaps itself instead of an independent bitmap", name)
				}
			}
			return out, want, nil
		}}
	}
	// three-way: order gives the positions of a, b and the third operand c
	vari3 := func(name string, f func(...*roaring64.Bitmap) *roaring64.Bitmap, order string) creation64 {
		return creation64{Name: name, Three: true, F: func(a, b *reg64) (*roaring64.Bitmap, *model.Set64, *ev.Fail) {
			c := a.Third
			var args []*roaring64.Bitmap
			for _, ch := range order {
				args = append(args, map[rune]*roaring64.Bitmap{'a': a.B, 'b': b.B, 'c': c.B}[ch])
			}
			want := model.Or64(model.Or64(a.M, b.M), c.M)
			saved := append([]*roaring64.Bitmap(nil), args...)
			out := f(args...)
			for i := range saved {
				if args[i] != saved[i] {
					return nil, nil, fail(name, "caller-slice-modified", "%s modified the caller's argument slice", name)
				}
				if out == saved[i] {
					return nil, nil, fail(name, "returns-input", "%s returned one of its input bitmaps itself instead of an independent bitmap", name)
				}
			}
			return out, want, nil
		}}
	}
	parOr := func(n int) func(...*roaring64.Bitmap) *roaring64.Bitmap {
		return func(bs ...*roaring64.Bitmap) *roaring64.Bitmap { return roaring64.ParOr(n, bs...) }
	}
	cs = append(cs,
		creation64{Name: "Flip(a, inside bucket)", F: func(a, b *reg64) (*roaring64.Bitmap, *model.Set64, *ev.Fail) {
			m := a.M.Clone()
			m.FlipRange(10, 20)
			return roaring64.Flip(a.B, 10, 20), m, nil
		}},
		creation64{Name: "Flip(a, beyond)", F: func(a, b *reg64) (*roaring64.Bitmap, *model.Set64, *ev.Fail) {
			m := a.M.Clone()
			m.FlipRange(9<<32, 9<<32+5)
			return roaring64.Flip(a.B, 9<<32, 9<<32+5), m, nil
		}},
		vari("FastOr(a,b)", roaring64.FastOr, model.Or64, false),
		vari("FastOr(a)", roaring64.FastOr, model.Or64, true),
		vari("FastAnd(a,b)", roaring64.FastAnd, model.And64, false),
		vari("FastAnd(a)", roaring64.FastAnd, model.And64, true),
		vari("ParOr(2,a,b)", parOr(2), model.Or64, false),
		vari("ParOr(2,a)", parOr(2), model.Or64, true),
		vari("ParOr(0,a,b)", parOr(0), model.Or64, false),
		vari3("ParOr(1,a,b,c)", parOr(1), "abc"),
		vari3("ParOr(2,a,b,c)", parOr(2), "abc"),
		vari3("ParOr(1,c,a,b)", parOr(1), "cab"),
		vari3("ParOr(1,a,c,b)", parOr(1), "acb"),
		vari3("FastOr(a,b,c)", roaring64.FastOr, "abc"),
		vari3("FastOr(c,a,b)", roaring64.FastOr, "cab"),
	)
	return cs
}

// c07Scenario64: inputs^2 x creation x cow switch x (register, per-bucket write).
func c07Scenario64(c *Ctx) explore.Scenario {
	pool := pool64(true)
	if c.Quick() {
		pool = pool64Named(true, "{}", "{0}", "{bucket0: few, bucket1: few}", "{range across 2^32}", "{bucket1 big run, bucket2 stripe}", "{buckets 0,2,0xFFFFFFFF}", "{buckets 0..3 one value each}", "{2^64-1}+opt")
	}
	crs := creations64()
	maxWrites := 20
	if c.Quick() {
		// quick: three of the six three-way creations, the first 12 writes
		var keep []creation64
		for _, cr := range crs {
			if cr.Three && cr.Name != "ParOr(1,a,b,c)" && cr.Name != "ParOr(1,a,c,b)" && cr.Name != "FastOr(a,b,c)" {
				continue
			}
			keep = append(keep, cr)
		}
		crs, maxWrites = keep, 12
	}
	return &explore.Product{Name: "64-bit: inputs^2 x creation x cow switch x (register, write)", Dims: []int{len(pool), len(pool), len(crs), 4, 4, maxWrites}, Deadline: c.Budget(175, 1790),
		Run: func(idx []int) (string, *ev.Fail) {
			aw, bw := pool[idx[0]].Build(), pool[idx[1]].Build()
			a, b := &reg64{Name: "a", B: aw.B, M: aw.M}, &reg64{Name: "b", B: bw.B, M: bw.M}
			switch idx[3] {
			case 1, 3:
				a.B.SetCopyOnWrite(true)
				b.B.SetCopyOnWrite(true)
			}
			cr := crs[idx[2]]
			if strings.HasSuffix(cr.Name, "(a,a)") && idx[1] != 0 {
				return "self-creation: b plays no part", nil
			}
			regs := []*reg64{a, b}
			if cr.Three {
				a.Third = third64()
				if idx[3] == 1 || idx[3] == 3 {
					a.Third.B.SetCopyOnWrite(true)
				}
				regs = append(regs, a.Third)
			} else if idx[4] == 3 {
				return "no-third-operand", nil
			}
			if idx[3] == 3 {
				// cow switch 3: every operand has a live clone, so each of its buckets is flagged as shared
				// when the creation runs; the clones are observed like every other bitmap
				for _, r := range append([]*reg64(nil), regs...) {
					regs = append(regs, &reg64{Name: r.Name + "-clone", B: r.B.Clone(), M: r.M.Clone()})
				}
			}
			out, om, f := cr.F(a, b)
			if f != nil {
				return "", f
			}
			if out != nil {
				regs = append(regs, &reg64{Name: "result", B: out, M: om})
			} else {
				a.M = om
			}
			if idx[3] == 2 && out != nil {
				out.SetCopyOnWrite(true)
			}
			if f := observe64(regs, cr.Name); f != nil {
				f.API = cr.Name
				return "", f
			}
			ws := bucketWrites(regs)
			if idx[5] >= len(ws) {
				return "no-such-write", nil
			}
			t := regs[len(regs)-1] // idx[4] == 2: the newest bitmap (the result, or a after an in-place creation)
			if out == nil {
				t = a
			}
			if idx[4] < 2 {
				t = regs[idx[4]]
			} else if idx[4] == 3 {
				t = a.Third
			}
			what := ws[idx[5]](t)
			if f := observe64(regs, cr.Name+"; "+t.Name+"."+what); f != nil {
				f.API = cr.Name
				return "", f
			}
			return cr.Name, nil
		},
		Describe: func(idx []int) any {
			return map[string]any{"a": pool[idx[0]].Name, "b": pool[idx[1]].Name, "creation": crs[idx[2]].Name, "cow": idx[3], "target": idx[4], "write": idx[5]}
		}}
}
