package props

import (
	"fmt"

	"github.com/RoaringBitmap/roaring/v2/roaring64"
	"verifmc/internal/ev"
	"verifmc/internal/explore"
	"verifmc/internal/extract"
	"verifmc/internal/model"
)

type reg64 struct {
	Name string
	B    *roaring64.Bitmap
	M    *model.Set64
}

// bucketWrites writes into every bucket any register holds: first present value removed, first absent value added.
func bucketWrites(regs []*reg64) []func(t *reg64) string {
	seen := map[uint32]bool{}
	var ws []func(t *reg64) string
	for _, r := range regs {
		for _, iv := range r.M.Iv {
			for _, bk := range []uint32{uint32(iv[0] >> 32), uint32(iv[1] >> 32)} {
				if seen[bk] {
					continue
				}
				seen[bk] = true
				bk := bk
				ws = append(ws, func(t *reg64) string {
					lo, hi := uint64(bk)<<32, uint64(bk)<<32|0xFFFFFFFF
					if vs := t.M.From(lo, 1); len(vs) == 1 && vs[0] <= hi {
						t.B.Remove(vs[0])
						t.M.Remove(vs[0])
						return fmt.Sprintf("Remove(%#x)", vs[0])
					}
					return "noop"
				}, func(t *reg64) string {
					lo := uint64(bk) << 32
					for x := lo + 77; x < lo+200; x++ {
						if !t.M.Contains(x) {
							t.B.Add(x)
							t.M.Add(x)
							return fmt.Sprintf("Add(%#x)", x)
						}
					}
					return "noop"
				})
			}
		}
	}
	ws = append(ws, func(t *reg64) string {
		t.B.RemoveRange(0, ^uint64(0))
		t.M.RemoveRange(0, ^uint64(0))
		return "RemoveRange(all)"
	})
	ws = append(ws, func(t *reg64) string { t.B.Flip(5, 1<<32+5); t.M.FlipRange(5, 1<<32+5); return "Flip(5,2^32+5)" })
	return ws
}

func observe64(regs []*reg64, after string) *ev.Fail {
	for _, r := range regs {
		if got := extract.Of64(r.B); !got.Equal(r.M) {
			return fail("interference", "register:"+r.Name, "after %s, 64-bit bitmap %s no longer holds its own contents: %s", after, r.Name, diff64(got, r.M))
		}
	}
	return nil
}

type creation64 struct {
	Name string
	F    func(a, b *reg64) (*roaring64.Bitmap, *model.Set64, *ev.Fail)
}

func creations64() []creation64 {
	cs := []creation64{{"Clone(a)", func(a, b *reg64) (*roaring64.Bitmap, *model.Set64, *ev.Fail) { return a.B.Clone(), a.M.Clone(), nil }}}
	for _, op := range binOps64 {
		op := op
		cs = append(cs, creation64{op.Name + "(a,b)", func(a, b *reg64) (*roaring64.Bitmap, *model.Set64, *ev.Fail) {
			return op.Static(a.B, b.B), op.Model(a.M, b.M), nil
		}}, creation64{"a." + op.Name + "(b)", func(a, b *reg64) (*roaring64.Bitmap, *model.Set64, *ev.Fail) {
			op.InPlace(a.B, b.B)
			return nil, op.Model(a.M, b.M), nil
		}})
	}
	vari := func(name string, f func(...*roaring64.Bitmap) *roaring64.Bitmap, mf func(a, b *model.Set64) *model.Set64, single bool) creation64 {
		return creation64{name, func(a, b *reg64) (*roaring64.Bitmap, *model.Set64, *ev.Fail) {
			args := []*roaring64.Bitmap{a.B, b.B}
			want := mf(a.M, b.M)
			if single {
				args = args[:1]
				want = a.M.Clone()
			}
			saved := append([]*roaring64.Bitmap(nil), args...)
			out := f(args...)
			for i := range saved {
				if args[i] != saved[i] {
					return nil, nil, fail(name, "caller-slice-modified", "%s modified the caller's argument slice", name)
				}
				if out == saved[i] {
					return nil, nil, fail(name, "returns-input", "%s returned one of its input bitmaps itself instead of an independent bitmap", name)
				}
			}
			return out, want, nil
		}}
	}
	parOr := func(n int) func(...*roaring64.Bitmap) *roaring64.Bitmap {
		return func(bs ...*roaring64.Bitmap) *roaring64.Bitmap { return roaring64.ParOr(n, bs...) }
	}
	cs = append(cs,
		creation64{"Flip(a, inside bucket)", func(a, b *reg64) (*roaring64.Bitmap, *model.Set64, *ev.Fail) {
			m := a.M.Clone()
			m.FlipRange(10, 20)
			return roaring64.Flip(a.B, 10, 20), m, nil
		}},
		creation64{"Flip(a, beyond)", func(a, b *reg64) (*roaring64.Bitmap, *model.Set64, *ev.Fail) {
			m := a.M.Clone()
			m.FlipRange(9<<32, 9<<32+5)
			return roaring64.Flip(a.B, 9<<32, 9<<32+5), m, nil
		}},
		vari("FastOr(a,b)", roaring64.FastOr, model.Or64, false),
		vari("FastOr(a)", roaring64.FastOr, model.Or64, true),
		vari("FastAnd(a,b)", roaring64.FastAnd, model.And64, false),
		vari("FastAnd(a)", roaring64.FastAnd, model.And64, true),
		vari("ParOr(2,a,b)", parOr(2), model.Or64, false),
		vari("ParOr(2,a)", parOr(2), model.Or64, true),
		vari("ParOr(0,a,b)", parOr(0), model.Or64, false),
	)
	return cs
}

// c07Scenario64: inputs^2 x creation x cow switch x (register, per-bucket write).
func c07Scenario64(c *Ctx) explore.Scenario {
	pool := pool64(true)
	if c.Quick() {
		pool = []recipe64{pool[0], pool[1], pool[3], pool[4], pool[5], pool[7], pool[10], pool[12]}
	}
	crs := creations64()
	const maxWrites = 14
	return &explore.Product{Name: "64-bit: inputs^2 x creation x cow switch x (register, write)", Dims: []int{len(pool), len(pool), len(crs), 3, 3, maxWrites}, Deadline: c.Budget(118, 1790),
		Run: func(idx []int) (string, *ev.Fail) {
			aw, bw := pool[idx[0]].Build(), pool[idx[1]].Build()
			a, b := &reg64{"a", aw.B, aw.M}, &reg64{"b", bw.B, bw.M}
			switch idx[3] {
			case 1:
				a.B.SetCopyOnWrite(true)
				b.B.SetCopyOnWrite(true)
			}
			cr := crs[idx[2]]
			out, om, f := cr.F(a, b)
			if f != nil {
				return "", f
			}
			regs := []*reg64{a, b}
			if out != nil {
				regs = append(regs, &reg64{"result", out, om})
			} else {
				a.M = om
			}
			if idx[3] == 2 && out != nil {
				out.SetCopyOnWrite(true)
			}
			if f := observe64(regs, cr.Name); f != nil {
				f.API = cr.Name
				return "", f
			}
			ws := bucketWrites(regs)
			if idx[5] >= len(ws) {
				return "no-such-write", nil
			}
			t := regs[len(regs)-1]
			if idx[4] < 2 {
				t = regs[idx[4]]
			}
			what := ws[idx[5]](t)
			if f := observe64(regs, cr.Name+"; "+t.Name+"."+what); f != nil {
				f.API = cr.Name
				return "", f
			}
			return cr.Name, nil
		},
		Describe: func(idx []int) any {
			return map[string]any{"a": pool[idx[0]].Name, "b": pool[idx[1]].Name, "creation": crs[idx[2]].Name, "cow": idx[3], "target": idx[4], "write": idx[5]}
		}}
}
