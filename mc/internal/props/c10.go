package props

import (
	"bytes"
	"encoding/base64"
	"encoding/binary"
	"fmt"
	"runtime"
	"runtime/debug"
	"strings"

	"github.com/RoaringBitmap/roaring/v2"
	"verifmc/internal/env"
	"verifmc/internal/model"
	"verifmc/internal/shapes"
	"verifmc/internal/spec"
)

func init() {
	Drivers["C10"] = Driver{Level: "fault_enumeration", Run: runC10}
	CageFamilies["C10bytes"] = c10Family
}

var entry32 = []string{"ReadFrom", "FromBuffer", "FromUnsafeBytes", "UnmarshalBinary", "FromBase64", "FrozenView", "MustReadFrom"}

type c10Case struct {
	Want   [][2]uint16 // when non-nil: the runs a spec-valid encoding holds; a successful decode must yield exactly them
	Name   string
	Data   []byte // the input itself, or (Kind != 0) the valid stream the input is derived from, shared between cases
	Kind   uint8  // 0 Data as is; 1 prefix Data[:Pos]; 2 suffix Data[Pos:]; 3 byte at Pos = Val; 4 u16 at Pos = Val; 5 u32 at Pos = Val
	Pos    int
	Val    uint32
	Frozen bool
	Prefix bool // proper prefix of a valid portable stream: must be rejected
	Entry  int
}

// input materialises the case's bytes (a fresh slice unless Kind == 0): the damaged inputs of a seed share the seed's
// stream, so that the case list of the thorough tier (close to a million cases) stays small in memory.
func (c *c10Case) input() []byte {
	switch c.Kind {
	case 1:
		return append([]byte(nil), c.Data[:c.Pos]...)
	case 2:
		return append([]byte(nil), c.Data[c.Pos:]...)
	case 3:
		d := append([]byte(nil), c.Data...)
		d[c.Pos] = byte(c.Val)
		return d
	case 4:
		d := append([]byte(nil), c.Data...)
		binary.LittleEndian.PutUint16(d[c.Pos:], uint16(c.Val))
		return d
	case 5:
		d := append([]byte(nil), c.Data...)
		binary.LittleEndian.PutUint32(d[c.Pos:], c.Val)
		return d
	}
	return c.Data
}

func c10Seeds() []shapes.Spec {
	A := bit(shapes.Lo, shapes.W, shapes.Mid)
	R := bit(shapes.R62, shapes.Lo)
	B := bit(shapes.S4095, shapes.Lo, shapes.Hi)
	type ks = []shapes.ChunkSpec
	mk := func(cs ks, mode int) shapes.Spec { return shapes.Spec{Chunks: cs, Mode: mode} }
	return []shapes.Spec{
		mk(ks{}, shapes.Points),
		mk(ks{{Key: 0, Mask: A}}, shapes.Points),
		mk(ks{{Key: 0xFFFF, Mask: A}}, shapes.Points),
		mk(ks{{Key: 0, Mask: A}, {Key: 1, Mask: A}, {Key: 2, Mask: A}}, shapes.Points),
		mk(ks{{Key: 0, Mask: A}, {Key: 1, Mask: A}, {Key: 2, Mask: A}, {Key: 3, Mask: A}}, shapes.Points),
		mk(ks{{Key: 0, Mask: A}, {Key: 1, Mask: A}, {Key: 2, Mask: A}, {Key: 3, Mask: A}, {Key: 9, Mask: A}}, shapes.Points),
		mk(ks{{Key: 0, Mask: R}}, shapes.Opt),
		mk(ks{{Key: 0, Mask: R}, {Key: 1, Mask: A}, {Key: 0xFFFF, Mask: R}}, shapes.Opt),
		mk(ks{{Key: 0, Mask: R}, {Key: 1, Mask: A}, {Key: 2, Mask: R}, {Key: 3, Mask: A}}, shapes.Opt),
		mk(ks{{Key: 5, Mask: bit(shapes.Full)}}, shapes.Opt),
		mk(ks{{Key: 1, Mask: B}}, shapes.Points),
		mk(ks{{Key: 0, Mask: R}, {Key: 1, Mask: B}, {Key: 2, Mask: A}}, shapes.Opt),
		mk(ks{{Key: 0, Mask: A}, {Key: 1, Mask: B}, {Key: 2, Mask: R}, {Key: 3, Mask: B}}, shapes.Opt),
	}
}

func byteAlphabet(orig byte, full bool) []byte {
	if full {
		v := make([]byte, 256)
		for i := range v {
			v[i] = byte(i)
		}
		return v
	}
	return []byte{0, 1, 2, 0x0F, 0x10, 0x3A, 0x3B, 0x7F, 0x80, 0xFE, 0xFF, orig + 1, orig - 1, orig ^ 0x80}
}

// illegalGrammar: structured-but-illegal encodings built with the independent encoder.
func illegalGrammar() []c10Case {
	var out []c10Case
	arr := func(key uint16, vs ...uint16) spec.Chunk { return spec.Chunk{Key: key, Kind: spec.KArray, Values: vs} }
	run := func(key uint16, rs ...[2]uint16) spec.Chunk { return spec.Chunk{Key: key, Kind: spec.KRun, Runs: rs} }
	words := func(n int) []uint64 {
		w := make([]uint64, 1024)
		for i := 0; i < n; i++ {
			w[i/64] |= 1 << (uint(i) % 64)
		}
		return w
	}
	bm := func(key uint16, nbits, declared int) spec.Chunk {
		return spec.Chunk{Key: key, Kind: spec.KBitmap, Words: words(nbits), Card: declared}
	}
	port := func(name string, force bool, cs ...spec.Chunk) {
		out = append(out, c10Case{Name: "illegal portable: " + name, Data: spec.EncodePortable(cs, force)})
	}
	froz := func(name string, cs ...spec.Chunk) {
		out = append(out, c10Case{Name: "illegal frozen: " + name, Data: spec.EncodeFrozen(cs), Frozen: true})
	}
	for _, force := range []bool{false, true} {
		port("unsorted keys", force, arr(5, 1, 2), arr(3, 1, 2))
		port("duplicate keys", force, arr(5, 1, 2), arr(5, 7, 8))
		port("duplicate keys, 4 chunks", force, arr(1, 1), arr(2, 1), arr(2, 2), arr(3, 1))
		port("unsorted array values", force, arr(0, 9, 3, 7))
		port("duplicate array values", force, arr(0, 3, 3, 7))
		port("declared cardinality larger than payload", force, spec.Chunk{Key: 0, Kind: spec.KArray, Values: []uint16{1, 2}, Card: 5})
		port("declared cardinality smaller than payload", force, spec.Chunk{Key: 0, Kind: spec.KArray, Values: []uint16{1, 2, 3, 4}, Card: 2}, arr(1, 1))
		port("bitmap payload, declared cardinality popcount+1", force, bm(0, 5000, 5001))
		port("bitmap payload, declared cardinality popcount-1", force, bm(0, 5000, 4999))
		port("bitmap payload with 4097 declared but 10 bits", force, bm(0, 10, 4097))
		port("bitmap payload all zero, declared 65536", force, bm(0, 0, 65536))
	}
	port("overlapping runs", false, run(0, [2]uint16{10, 20}, [2]uint16{15, 20}))
	port("adjacent runs", false, run(0, [2]uint16{10, 5}, [2]uint16{16, 5}))
	port("unsorted runs", false, run(0, [2]uint16{100, 5}, [2]uint16{10, 5}))
	port("equal runs", false, run(0, [2]uint16{10, 5}, [2]uint16{10, 5}))
	port("zero runs", false, spec.Chunk{Key: 0, Kind: spec.KRun, Card: 1})
	port("wrapping run (start+length > 65535)", false, run(0, [2]uint16{65535, 10}))
	port("wrapping run in the middle", false, run(0, [2]uint16{10, 5}, [2]uint16{65000, 60000}), arr(1, 4))
	port("run covering everything twice", false, run(0, [2]uint16{0, 65535}, [2]uint16{0, 65535}))
	port("run chunk, declared cardinality differs", false, spec.Chunk{Key: 0, Kind: spec.KRun, Runs: [][2]uint16{{10, 5}}, Card: 100})
	port("runs, 4 chunks with unsorted keys", false, run(9, [2]uint16{1, 1}), arr(2, 1), run(1, [2]uint16{1, 1}), arr(0, 1))
	// every list of 2 runs over an endpoint alphabet (and of 3 over a smaller one), at key 0 and key 7:
	// sorted or not, overlapping, adjacent, equal, touching 65535 - the valid ones must decode exactly
	runsOver := func(e []uint16) [][2]uint16 {
		var rs [][2]uint16
		for i, a := range e {
			for _, b := range e[i:] {
				rs = append(rs, [2]uint16{a, b - a})
			}
		}
		return rs
	}
	validRuns := func(l [][2]uint16) bool {
		for i := range l {
			if i > 0 && int(l[i][0]) <= int(l[i-1][0])+int(l[i-1][1])+1 {
				return false
			}
			if int(l[i][0])+int(l[i][1]) > 65535 {
				return false // the run would end beyond the chunk
			}
		}
		return true
	}
	addRunList := func(key uint16, l [][2]uint16) {
		var want [][2]uint16
		if validRuns(l) {
			want = l
		}
		name := fmt.Sprintf("run list %v at key %d", l, key)
		out = append(out, c10Case{Name: "portable " + name, Data: spec.EncodePortable([]spec.Chunk{run(key, l...)}, false), Want: want})
		out = append(out, c10Case{Name: "frozen " + name, Data: spec.EncodeFrozen([]spec.Chunk{run(key, l...)}), Frozen: true, Want: want})
	}
	r2 := runsOver([]uint16{0, 1, 100, 200, 300, 65534, 65535})
	for _, a := range r2 {
		for _, b := range r2 {
			addRunList(0, [][2]uint16{a, b})
		}
	}
	r3 := runsOver([]uint16{0, 100, 200, 65535})
	for _, a := range r3 {
		for _, b := range r3 {
			for _, c := range r3 {
				addRunList(7, [][2]uint16{a, b, c})
			}
		}
	}
	// raw (start, length) pairs, so that a run may end beyond 65535 in ANY position of the list (its uint16 end wraps
	// to a small value and the pairwise order checks no longer see it): all lists of 2, and of 3 over a smaller alphabet
	var raw2, raw3 [][2]uint16
	for _, st := range []uint16{0, 100, 65000, 65100, 65535} {
		for _, ln := range []uint16{0, 10, 1000, 65535} {
			raw2 = append(raw2, [2]uint16{st, ln})
		}
	}
	for _, st := range []uint16{0, 65000, 65100} {
		for _, ln := range []uint16{10, 1000} {
			raw3 = append(raw3, [2]uint16{st, ln})
		}
	}
	for _, a := range raw2 {
		for _, b := range raw2 {
			addRunList(3, [][2]uint16{a, b})
		}
	}
	for _, a := range raw3 {
		for _, b := range raw3 {
			for _, c := range raw3 {
				addRunList(3, [][2]uint16{a, b, c})
			}
		}
	}
	// field level edits on a valid 2-chunk stream
	base := spec.EncodePortable([]spec.Chunk{arr(1, 5, 6, 7), arr(2, 9)}, false)
	edit := func(name string, f func(b []byte) []byte) {
		out = append(out, c10Case{Name: "illegal portable: " + name, Data: f(append([]byte(nil), base...))})
	}
	edit("wrong cookie", func(b []byte) []byte { binary.LittleEndian.PutUint32(b, 12345); return b })
	edit("cookie of the other kind with stale layout", func(b []byte) []byte { binary.LittleEndian.PutUint32(b, 12347|1<<16); return b })
	edit("size 65537", func(b []byte) []byte { binary.LittleEndian.PutUint32(b[4:], 65537); return b })
	edit("size 65536 with 2 chunks of data", func(b []byte) []byte { binary.LittleEndian.PutUint32(b[4:], 65536); return b })
	edit("size 0 with trailing data", func(b []byte) []byte { binary.LittleEndian.PutUint32(b[4:], 0); return b })
	edit("size 2^32-1", func(b []byte) []byte { binary.LittleEndian.PutUint32(b[4:], 0xFFFFFFFF); return b })
	rbase := spec.EncodePortable([]spec.Chunk{run(1, [2]uint16{5, 3}), arr(2, 9)}, false)
	out = append(out, c10Case{Name: "illegal portable: run count larger than payload", Data: func() []byte {
		b := append([]byte(nil), rbase...)
		// the run chunk payload starts after cookie(4)+bitset(1)+descr(8)
		binary.LittleEndian.PutUint16(b[13:], 9)
		return b
	}()})
	out = append(out, c10Case{Name: "illegal portable: run count 65535", Data: func() []byte {
		b := append([]byte(nil), rbase...)
		binary.LittleEndian.PutUint16(b[13:], 65535)
		return b
	}()})
	out = append(out, c10Case{Name: "illegal portable: run cookie claiming 65536 chunks", Data: func() []byte {
		b := append([]byte(nil), rbase...)
		binary.LittleEndian.PutUint32(b, 12347|0xFFFF<<16)
		return b
	}()})
	// frozen
	froz("unsorted keys", arr(5, 1, 2), arr(3, 1, 2))
	froz("duplicate keys", arr(5, 1, 2), arr(5, 3))
	froz("unsorted array", arr(0, 9, 3, 7))
	froz("bitmap chunk with cardinality 4096", bm(0, 4096, 4096))
	froz("bitmap chunk with cardinality 10", bm(0, 10, 10))
	froz("bitmap chunk, count field popcount+1", bm(0, 5000, 5001))
	froz("overlapping runs", run(0, [2]uint16{10, 20}, [2]uint16{15, 20}))
	froz("adjacent runs", run(0, [2]uint16{10, 5}, [2]uint16{16, 5}))
	froz("wrapping run", run(0, [2]uint16{65535, 10}))
	froz("zero runs", spec.Chunk{Key: 0, Kind: spec.KRun})
	fbase := spec.EncodeFrozen([]spec.Chunk{arr(1, 5, 6, 7), run(2, [2]uint16{4, 4}), bm(3, 5000, 5000)})
	fedit := func(name string, f func(b []byte) []byte) {
		out = append(out, c10Case{Name: "illegal frozen: " + name, Data: f(append([]byte(nil), fbase...)), Frozen: true})
	}
	n := len(fbase)
	for _, tc := range []byte{0, 4, 255} {
		for pos := 0; pos < 3; pos++ {
			tc, pos := tc, pos
			fedit(fmt.Sprintf("type code %d at chunk %d", tc, pos), func(b []byte) []byte { b[n-4-3+pos] = tc; return b })
		}
	}
	fedit("type codes permuted (array as bitmap)", func(b []byte) []byte { b[n-4-3] = 1; return b })
	fedit("type codes permuted (bitmap as run)", func(b []byte) []byte { b[n-4-1] = 3; return b })
	fedit("array count overruns the arena", func(b []byte) []byte { binary.LittleEndian.PutUint16(b[n-4-3-6:], 60000); return b })
	fedit("run count overruns the arena", func(b []byte) []byte { binary.LittleEndian.PutUint16(b[n-4-3-4:], 60000); return b })
	fedit("array count underruns the arena", func(b []byte) []byte { binary.LittleEndian.PutUint16(b[n-4-3-6:], 0); return b })
	fedit("chunk count 4", func(b []byte) []byte { binary.LittleEndian.PutUint32(b[n-4:], spec.FrozenCookie|4<<15); return b })
	fedit("chunk count 2", func(b []byte) []byte { binary.LittleEndian.PutUint32(b[n-4:], spec.FrozenCookie|2<<15); return b })
	fedit("chunk count 65537", func(b []byte) []byte { binary.LittleEndian.PutUint32(b[n-4:], spec.FrozenCookie|65537<<15); return b })
	fedit("chunk count 2^17-1", func(b []byte) []byte { binary.LittleEndian.PutUint32(b[n-4:], spec.FrozenCookie|0x1FFFF<<15); return b })
	fedit("wrong cookie", func(b []byte) []byte { binary.LittleEndian.PutUint32(b[n-4:], 12345|3<<15); return b })
	fedit("big endian header", func(b []byte) []byte { binary.BigEndian.PutUint32(b[n-4:], spec.FrozenCookie|3<<15); return b })
	return out
}

func buildC10(tier string) []c10Case {
	full := tier == "thorough"
	var raw []c10Case
	for si, sp := range c10Seeds() {
		b := sp.Build()
		port, _ := b.B.ToBytes()
		froz, _ := b.B.Freeze()
		name := fmt.Sprintf("seed %d %s", si, sp.String())
		raw = append(raw, c10Case{Name: name + " valid portable", Data: port})
		raw = append(raw, c10Case{Name: name + " valid frozen", Data: froz, Frozen: true})
		// (a) prefixes
		for k := 0; k < len(port); k++ {
			if len(port) > 600 && k > 96 && k%61 != 0 && k < len(port)-6 {
				continue
			}
			raw = append(raw, c10Case{Name: fmt.Sprintf("%s portable prefix %d/%d", name, k, len(port)), Data: port, Kind: 1, Pos: k, Prefix: true})
		}
		for k := 0; k < len(froz); k++ {
			if len(froz) > 600 && k > 32 && k%61 != 0 && k < len(froz)-40 {
				continue
			}
			raw = append(raw, c10Case{Name: fmt.Sprintf("%s frozen prefix %d/%d", name, k, len(froz)), Data: froz, Kind: 1, Pos: k, Frozen: true})
			raw = append(raw, c10Case{Name: fmt.Sprintf("%s frozen suffix from %d/%d", name, k, len(froz)), Data: froz, Kind: 2, Pos: k, Frozen: true})
		}
		// (b) byte substitutions: header region fully, payload at boundaries
		hdr := 8 + 9*len(sp.Chunks) + 6
		for pos := 0; pos < len(port); pos++ {
			if pos >= hdr && len(port) > 400 && pos%509 != 0 && pos < len(port)-2 {
				continue
			}
			for _, v := range byteAlphabet(port[pos], full && pos < hdr) {
				if v == port[pos] {
					continue
				}
				raw = append(raw, c10Case{Name: fmt.Sprintf("%s portable byte %d = %#x", name, pos, v), Data: port, Kind: 3, Pos: pos, Val: uint32(v)})
			}
		}
		tail := 5*len(sp.Chunks) + 4 + 4
		for pos := 0; pos < len(froz); pos++ {
			if pos < len(froz)-tail && len(froz) > 400 && pos%509 != 0 && pos > 2 {
				continue
			}
			for _, v := range byteAlphabet(froz[pos], full && pos >= len(froz)-tail) {
				if v == froz[pos] {
					continue
				}
				raw = append(raw, c10Case{Name: fmt.Sprintf("%s frozen byte %d = %#x", name, pos, v), Data: froz, Kind: 3, Pos: pos, Val: uint32(v), Frozen: true})
			}
		}
		// (c) 16 / 32 bit fields in the header region
		for pos := 0; pos+2 <= len(port) && pos < hdr; pos += 2 {
			o := binary.LittleEndian.Uint16(port[pos:])
			for _, v := range []uint16{0, 1, 0xFFFF, 0xFFFE, 4095, 4096, 4097, o + 1, o - 1} {
				raw = append(raw, c10Case{Name: fmt.Sprintf("%s portable u16@%d = %d", name, pos, v), Data: port, Kind: 4, Pos: pos, Val: uint32(v)})
			}
		}
		for pos := 0; pos+4 <= len(port) && pos < hdr; pos += 4 {
			for _, v := range []uint32{0, 1, 0xFFFFFFFF, uint32(len(port)), uint32(len(port)) + 1, uint32(len(port)) - 1, 65536, 65537, 0x80000000} {
				raw = append(raw, c10Case{Name: fmt.Sprintf("%s portable u32@%d = %d", name, pos, v), Data: port, Kind: 5, Pos: pos, Val: v})
			}
		}
	}
	raw = append(raw, illegalGrammar()...)
	// every input through every applicable entry point
	var out []c10Case
	for _, c := range raw {
		for e := range entry32 {
			if c.Frozen != (e == 5) {
				// also feed frozen bytes to the portable readers and vice versa on a thin slice of cases
				if len(out)%7 != 0 {
					continue
				}
			}
			cc := c
			cc.Entry = e
			out = append(out, cc)
		}
	}
	return out
}

// genuineSet: the "Validate()==nil means safe to use" battery.
func genuineSet(rb *roaring.Bitmap, keep any, deep, light bool) string {
	arr := rb.ToArray()
	for i := 1; i < len(arr); i++ {
		if arr[i-1] >= arr[i] {
			return fmt.Sprintf("Validate()==nil but ToArray is not strictly increasing at %d (%d then %d): a value lies outside its chunk's range or is duplicated", i, arr[i-1], arr[i])
		}
	}
	m := model.New32()
	for _, v := range arr {
		m.Add(v)
	}
	if m.Card() > 300000 {
		return ""
	}
	if light {
		// entry points that share their decoding path with ReadFrom / FromUnsafeBytes: the cheap clauses only
		if c := rb.GetCardinality(); c != m.Card() {
			return fmt.Sprintf("Validate()==nil but GetCardinality()=%d and ToArray has %d values", c, m.Card())
		}
		if got := extractOf(rb); !got.Equal(m) {
			return "Validate()==nil but the stored content differs from ToArray: " + diff32(got, m)
		}
		data, err := rb.ToBytes()
		if err != nil {
			return fmt.Sprintf("Validate()==nil but the bitmap cannot be serialised: %v", err)
		}
		back := roaring.New()
		if _, err := back.ReadFrom(bytes.NewReader(data)); err != nil || !back.Equals(rb) {
			return fmt.Sprintf("Validate()==nil but re-serialising does not round trip (%v)", err)
		}
		return ""
	}
	if _, f := queryBatteryOpt(rb, m, false); f != nil {
		return "Validate()==nil but queries are inconsistent: " + f.What
	}
	if _, f := drains(rb, m); f != nil {
		return "Validate()==nil but iteration is inconsistent: " + f.What
	}
	if deep {
		if _, f := manyProtocol(rb, m, 1); f != nil {
			return "Validate()==nil but batch iteration is inconsistent: " + f.What
		}
	}
	// exact set algebra with valid partners, as argument and as receiver
	partners := []shapes.Spec{
		{Chunks: []shapes.ChunkSpec{{Key: 0, Mask: bit(shapes.Full)}, {Key: 1, Mask: bit(shapes.Lo, shapes.Mid)}}, Mode: shapes.Opt},
		{Chunks: []shapes.ChunkSpec{{Key: 0, Mask: bit(shapes.S4095, shapes.Lo, shapes.Hi)}, {Key: 2, Mask: bit(shapes.Big)}, {Key: 0xFFFF, Mask: bit(shapes.Lo)}}, Mode: shapes.Points},
	}
	if !deep {
		partners = partners[1:]
	}
	for _, ps := range partners {
		for _, op := range binOps {
			p := ps.Build()
			want := op.Model(m, p.M)
			r := op.Static(rb, p.B)
			if got := extractOf(r); !got.Equal(want) {
				return fmt.Sprintf("Validate()==nil but %s(decoded, valid partner) is wrong: %s", op.Name, diff32(got, want))
			}
			want2 := op.Model(p.M, m)
			op.InPlace(p.B, rb)
			if got := extractOf(p.B); !got.Equal(want2) {
				return fmt.Sprintf("Validate()==nil but partner.%s(decoded) is wrong: %s", op.Name, diff32(got, want2))
			}
			cl := rb.Clone()
			op.InPlace(cl, ps.Build().B)
			if got := extractOf(cl); !got.Equal(want) {
				return fmt.Sprintf("Validate()==nil but decoded.Clone().%s(partner) is wrong: %s", op.Name, diff32(got, want))
			}
		}
	}
	// re-serialisation round trip
	data, err := rb.ToBytes()
	if err != nil {
		return fmt.Sprintf("Validate()==nil but the bitmap cannot be serialised: %v", err)
	}
	back := roaring.New()
	if _, err := back.ReadFrom(bytes.NewReader(data)); err != nil {
		return fmt.Sprintf("Validate()==nil but its own serialisation is rejected: %v", err)
	}
	if !back.Equals(rb) || !sliceEq(back.ToArray(), arr) {
		return "Validate()==nil but re-serialising does not round trip"
	}
	// a genuine set stays one under single-value edits: remove the smallest / largest value of every chunk and add
	// an absent one, on a clone; each result is exact, validates, and its size accounting agrees with the bytes written
	if len(arr) > 0 {
		for _, k := range m.Keys() {
			lo, _ := firstPresent(m, k)
			for _, edit := range []string{"Remove(first of chunk)", "Add(first absent of chunk)"} {
				cl, cm := rb.Clone(), m.Clone()
				if edit[0] == 'R' {
					cl.Remove(lo)
					cm.Remove(lo)
				} else if x, ok := firstAbsent(m, k); ok {
					cl.Add(x)
					cm.Add(x)
				}
				if got := extractOf(cl); !got.Equal(cm) {
					return fmt.Sprintf("Validate()==nil but decoded.Clone().%s is wrong: %s", edit, diff32(got, cm))
				}
				if err := cl.Validate(); err != nil {
					return fmt.Sprintf("Validate()==nil but after %s on chunk %d the bitmap no longer validates: %v", edit, k, err)
				}
				d2, err := cl.ToBytes()
				if err != nil || uint64(len(d2)) != cl.GetSerializedSizeInBytes() {
					return fmt.Sprintf("Validate()==nil but after %s on chunk %d GetSerializedSizeInBytes()=%d and %d bytes are written (%v)", edit, k, cl.GetSerializedSizeInBytes(), len(d2), err)
				}
			}
			if len(m.Keys()) > 8 {
				break
			}
		}
	}
	runtime.KeepAlive(keep)
	return ""
}

func c10Family(tier string) (int, func(id int) string) {
	cs := buildC10(tier)
	return len(cs), func(id int) (out string) {
		c := cs[id]
		debug.SetPanicOnFault(true)
		stage := "decoding"
		defer func() {
			if r := recover(); r != nil {
				st := string(debug.Stack())
				if i := strings.Index(st, "/repo/"); i > 0 {
					e := i + 200
					if e > len(st) {
						e = len(st)
					}
					st = st[i:e]
				} else {
					st = ""
				}
				out = fmt.Sprintf("VIOL %s panics while %s [%s]: %v @ %s", entry32[c.Entry], stage, c.Name, r, strings.ReplaceAll(st, "\n", " "))
			}
		}()
		// the input lives between guard pages (flush right, then flush left) and is read-only
		in := c.input()
		for _, right := range []bool{true, false} {
			g := env.NewGuarded(len(in), right)
			copy(g.Data, in)
			g.ReadOnly(true)
			res := c10One(c, g.Data, &stage, right, tier == "thorough")
			if !bytes.Equal(g.Data, in) {
				res = "VIOL " + entry32[c.Entry] + " wrote to the caller's buffer [" + c.Name + "]"
			}
			g.Free()
			if strings.HasPrefix(res, "VIOL") {
				return res
			}
			out = res
		}
		return out
	}
}

func c10One(c c10Case, data []byte, stage *string, battery, deep bool) string {
	rb := roaring.New()
	var err error
	*stage = "decoding"
	switch c.Entry {
	case 0:
		_, err = rb.ReadFrom(bytes.NewReader(data))
	case 1:
		_, err = rb.FromBuffer(data)
	case 2:
		_, err = rb.FromUnsafeBytes(data)
	case 3:
		err = rb.UnmarshalBinary(data)
	case 4:
		_, err = rb.FromBase64(base64.StdEncoding.EncodeToString(data))
	case 5:
		err = rb.FrozenView(data)
	case 6:
		// MustReadFrom returns ReadFrom's (n, err) and panics only to report a validation failure
		ref := roaring.New()
		n1, e1 := ref.ReadFrom(bytes.NewReader(data))
		var v1 error
		if e1 == nil {
			v1 = ref.Validate() // only a successfully decoded bitmap can be validated
		}
		var n2 int64
		var e2 error
		panicked := func() (p any) {
			defer func() { p = recover() }()
			n2, e2 = rb.MustReadFrom(bytes.NewReader(data))
			return nil
		}()
		if panicked != nil {
			if _, isErr := panicked.(error); !isErr || e1 != nil || v1 == nil {
				return fmt.Sprintf("VIOL MustReadFrom panics with %v although ReadFrom gives (%d,%v) and Validate()=%v [%s]", panicked, n1, e1, v1, c.Name)
			}
			return "ok must-panic-validation"
		}
		if n2 != n1 || (e1 == nil) != (e2 == nil) {
			return fmt.Sprintf("VIOL MustReadFrom returned (%d,%v) but ReadFrom returns (%d,%v) [%s]", n2, e2, n1, e1, c.Name)
		}
		if v1 != nil && e1 == nil {
			return fmt.Sprintf("VIOL MustReadFrom did not report the validation failure %v [%s]", v1, c.Name)
		}
		err = e2
	}
	if err != nil {
		return "ok error"
	}
	if c.Prefix && c.Entry != 5 {
		return fmt.Sprintf("VIOL %s accepts a proper prefix of a valid portable stream [%s]", entry32[c.Entry], c.Name)
	}
	if c.Want != nil {
		// a spec-valid encoding: it must be read as exactly the set it encodes
		want := model.New32()
		for _, r := range c.Want {
			want.AddRange(uint64(r[0]), uint64(r[0])+uint64(r[1])+1)
		}
		got := model.New32()
		for _, v := range rb.ToArray() {
			got.Add(v & 0xFFFF)
		}
		if !got.Equal(want) {
			return fmt.Sprintf("VIOL %s reads a spec-valid run list as a different set: %s [%s]", entry32[c.Entry], diff32(got, want), c.Name)
		}
	}
	*stage = "validating"
	if rb.Validate() != nil {
		return "ok invalid"
	}
	*stage = "using a bitmap whose Validate()==nil"
	if !battery {
		return "ok valid" // second placement of the same bytes: decode + validate only
	}
	light := !deep && (c.Entry == 1 || c.Entry == 3 || c.Entry == 4 || c.Entry == 6)
	if s := genuineSet(rb, data, deep, light); s != "" {
		return fmt.Sprintf("VIOL %s: %s [%s]", entry32[c.Entry], s, c.Name)
	}
	return "ok valid"
}

func runC10(c *Ctx) {
	if c.Replay != nil {
		replayCaged(c, "C10bytes")
		return
	}
	c.R.Assume("'all byte strings' is decided for the complete mutation neighbourhoods (prefixes, byte and field substitutions) of 13 seed streams in both formats and for a grammar of structured-but-illegal encodings, not for arbitrary strings")
	c.R.Assume("inputs live in PROT_READ memory between PROT_NONE guard pages (flush right and flush left), so reads outside the given bytes and writes into them fault")
	runCagedFamily(c, "C10bytes", "damage", "untrusted byte strings x 7 entry points (subprocess cage, guard pages, 20 s silence watchdog)")
}
