package props

import (
	"bufio"
	"bytes"
	"encoding/json"
	"fmt"
	"os"
	"os/exec"
	"strings"
	"sync"
	"time"

	"verifmc/internal/ev"
	"verifmc/internal/explore"
)

func init() { Drivers["C12"] = Driver{Level: "model_checking", Run: runC12} }

type c12Report struct {
	Driver      string         `json:"driver"`
	Bound       int            `json:"bound"`
	Executions  int            `json:"executions"`
	MaxPoints   int            `json:"max_decision_points"`
	MaxSteps    int            `json:"max_scheduling_points"`
	Complete    bool           `json:"complete"`
	Outcomes    map[string]int `json:"outcomes"`
	Race        bool           `json:"race_detector"`
	Failure     string         `json:"failure"`
	SampleTrace []string       `json:"sample_trace"`
	SampleSched []int          `json:"sample_schedule"`
	Schedule    []int          `json:"schedule"`
	WallS       float64        `json:"wall_s"`
}

// runC12 regenerates the overlay from /repo's working tree, builds the explorer
// (plain and -race) and runs every driver in its own single-P process.
func runC12(c *Ctx) {
	build := exec.Command("bash", "/verif/scripts/c12_build.sh")
	if out, err := build.CombinedOutput(); err != nil {
		c.R.HarnessError("C12 build (rewriter / overlay / explorer) failed: " + err.Error() + "\n" + trunc(string(out), 3000))
		return
	}
	suf := ""
	if r := os.Getenv("VERIF_REPO"); r != "" && r != "/repo" {
		suf = strings.ReplaceAll(r, "/", "_")
	}
	bins := []string{"/verif/out/bin/check12" + suf, "/verif/out/bin/check12race" + suf}
	if c.Replay != nil {
		var rc struct {
			Bin      string `json:"bin"`
			Driver   string `json:"driver"`
			Schedule []int  `json:"schedule"`
		}
		if err := json.Unmarshal(c.Replay.Case, &rc); err != nil {
			c.R.HarnessError("bad C12 replay case")
			return
		}
		var ss []string
		for _, x := range rc.Schedule {
			ss = append(ss, fmt.Sprint(x))
		}
		// The race detector has no false positives under the shim's happens-before edges, but it can miss a race in one
		// run of a schedule (its shadow memory keeps a bounded, partly randomly evicted access history: the same
		// schedule of a racy driver is reported in roughly half of the runs). A replay of the -race build therefore
		// repeats the schedule until the detector reports (at most 12 times); the plain build replays once.
		attempts := 1
		if strings.Contains(rc.Bin, "check12race") {
			attempts = 12
		}
		for i := 0; i < attempts; i++ {
			cmd := exec.Command(rc.Bin, "-tier", c.Tier, "-driver", rc.Driver, "-schedule", strings.Join(ss, ","))
			cmd.Env = append(os.Environ(), "GOMAXPROCS=1", "GORACE=halt_on_error=0 exitcode=0")
			out, _ := cmd.CombinedOutput()
			if i := bytes.Index(out, []byte(`"failure":"`)); i >= 0 && !bytes.Contains(out, []byte(`"failure":""`)) {
				c.R.Report(&ev.Fail{Scenario: c.Replay.Scenario, Case: rc, API: rc.Driver, Shape: "replay", What: trunc(string(out[i:]), 600)})
				break
			}
		}
		return
	}
	// self tests gate the verdicts of both builds
	for _, b := range bins {
		cmd := exec.Command(b, "-selftest")
		cmd.Env = append(os.Environ(), "GOMAXPROCS=1", "GORACE=halt_on_error=0 exitcode=0")
		var stderr bytes.Buffer
		cmd.Stderr = &stderr
		out, err := cmd.Output()
		var st struct {
			Problems []string `json:"problems"`
			Log      []string `json:"log"`
			Race     bool     `json:"race_detector"`
		}
		if e := json.Unmarshal(out, &st); e != nil || err != nil || len(st.Problems) > 0 {
			c.R.HarnessError(fmt.Sprintf("vsched self test failed for %s: %v %v %v", b, err, e, st.Problems))
			return
		}
		c.R.SetExtra("selftest_"+b[strings.LastIndex(b, "/")+1:], st.Log)
	}
	type job struct {
		bin, name string
	}
	var jobs []job
	for _, b := range bins {
		out, err := exec.Command(b, "-tier", c.Tier, "-list").Output()
		if err != nil {
			c.R.HarnessError("cannot list C12 drivers: " + err.Error())
			return
		}
		sc := bufio.NewScanner(bytes.NewReader(out))
		for sc.Scan() {
			jobs = append(jobs, job{b, sc.Text()})
		}
	}
	var mu sync.Mutex
	var wg sync.WaitGroup
	sem := make(chan struct{}, explore.Workers())
	for _, j := range jobs {
		j := j
		wg.Add(1)
		sem <- struct{}{}
		go func() {
			defer wg.Done()
			defer func() { <-sem }()
			t0 := time.Now()
			budget := "9"
			if !c.Quick() {
				budget = "400"
			}
			cmd := exec.Command(j.bin, "-tier", c.Tier, "-driver", j.name, "-budget", budget)
			cmd.Env = append(os.Environ(), "GOMAXPROCS=1", "GORACE=halt_on_error=0 exitcode=0")
			var stderr bytes.Buffer
			cmd.Stderr = &stderr
			out, err := cmd.Output()
			var rep c12Report
			mu.Lock()
			defer mu.Unlock()
			kind := "schedules"
			if strings.Contains(j.bin, "check12race") {
				kind = "schedules+race-detector"
			}
			name := fmt.Sprintf("[%s] %s", kind, j.name)
			if e := json.Unmarshal(bytes.TrimSpace(out), &rep); e != nil {
				c.R.HarnessError(fmt.Sprintf("C12 driver %q produced no report (%v, %v): %s", j.name, err, e, trunc(stderr.String(), 1500)))
				return
			}
			if rep.Failure != "" {
				shape := "schedule"
				switch {
				case strings.Contains(rep.Failure, "data race"):
					shape = "data-race"
				case strings.Contains(rep.Failure, "deadlock"):
					shape = "deadlock"
				case strings.Contains(rep.Failure, "goroutine leak"):
					shape = "leak"
				case strings.Contains(rep.Failure, "panic"):
					shape = "panic"
				case strings.HasPrefix(rep.Failure, "HARNESS"):
					c.R.HarnessError(name + ": " + rep.Failure)
					return
				}
				extra := map[string]any{}
				if shape == "data-race" {
					extra["race_report"] = trunc(stderr.String(), 3000)
				}
				c.R.Report(&ev.Fail{Scenario: "schedules", Case: map[string]any{"bin": j.bin, "driver": j.name, "schedule": rep.Schedule}, API: j.name, Shape: shape, What: name + ": " + trunc(rep.Failure, 700), Extra: extra})
			}
			bound := fmt.Sprintf("all schedules with <= %d deviations (preemptions / non-default pool answers); ", rep.Bound)
			if rep.Bound < 0 {
				bound = "no deviation bound completed (the deviation-free schedules alone exceed the cap); "
			}
			if !rep.Complete {
				bound += fmt.Sprintf("bound %d capped at %d executions in total", rep.Bound+1, rep.Executions)
			} else {
				bound += "complete"
			}
			c.R.AddScenario(ev.ScenarioStat{Name: name, States: int64(rep.Executions), Transitions: int64(rep.Executions) * int64(rep.MaxSteps), MaxDepth: rep.MaxSteps, Exhaustive: rep.Complete, Bound: bound, Outcomes: len(rep.Outcomes),
				Extra: map[string]any{"max_decision_points": rep.MaxPoints, "completed_deviation_bound": rep.Bound, "race_detector": rep.Race}, WallS: time.Since(t0).Seconds()})
			if len(rep.Outcomes) > 0 {
				c.R.Sample(map[string]any{"driver": j.name, "executions": rep.Executions, "distinct_results": len(rep.Outcomes), "one_explored_schedule": rep.SampleSched, "its_scheduling_points": rep.SampleTrace})
			}
		}()
	}
	wg.Wait()
	c.R.Assume("interleavings are explored at the library's synchronisation operations (channel ops, select, WaitGroup, Pool, atomic add, go); weak-memory effects are excluded by DRF-SC, which rests on the race verdicts of the -race build within the explored bounds")
	c.R.Assume("the shim's happens-before edges are those of the Go memory model; unbuffered sends complete after the matching receive; sync.Pool may return a pooled item or call New (explicit choice)")
	c.R.Assume("GOMAXPROCS is abstracted by the interleaving semantics; 'states' counts executions (schedules), 'transitions' executions x scheduling points")
}
