package props

import (
	"fmt"
	"runtime"
	"sync/atomic"
	"verifmc/internal/extract"

	"github.com/RoaringBitmap/roaring/v2"
	"verifmc/internal/ev"
	"verifmc/internal/explore"
	"verifmc/internal/model"
)

func init() { Drivers["C14"] = Driver{Level: "model_checking", Run: runC14} }

func ceilDiv(a, b uint64) uint64 { return (a + b - 1) / b }

// sizeBound checks property C14 on one bitmap, before and after RunOptimize (on a clone).
func sizeBound(api string, b *roaring.Bitmap, m *model.Set32) *ev.Fail {
	n := m.Card()
	var x uint64
	if mx, ok := m.Max(); ok {
		x = uint64(mx) + 1
	}
	check := func(when string, bb *roaring.Bitmap) *ev.Fail {
		sz := bb.GetSerializedSizeInBytes()
		data, err := bb.ToBytes()
		if err != nil {
			return fail("ToBytes", "error", "%v", err)
		}
		if uint64(len(data)) != sz {
			return fail("GetSerializedSizeInBytes", "accounting", "%s %s: GetSerializedSizeInBytes()=%d but %d bytes are written", api, when, sz, len(data))
		}
		prevR, prevB := uint64(0), uint64(0)
		for i, xx := range []uint64{x, ceilDiv(x, 65536) * 65536, 1 << 32} {
			readme := 8 + 9*ceilDiv(xx, 65536) + 2*n
			bnd := roaring.BoundSerializedSizeInBytes(n, xx)
			if i > 0 && (readme < prevR || bnd < prevB) {
				return fail("BoundSerializedSizeInBytes", "monotone", "bounds are not monotone in the universe size at x=%d", xx)
			}
			prevR, prevB = readme, bnd
			if sz > readme {
				return fail("GetSerializedSizeInBytes", "readme-bound", "%s %s: %d bytes for N=%d, x=%d exceeds the README bound %d", api, when, sz, n, xx, readme)
			}
			if sz > bnd {
				return fail("GetSerializedSizeInBytes", "bound-function", "%s %s: %d bytes for N=%d, x=%d exceeds BoundSerializedSizeInBytes=%d", api, when, sz, n, xx, bnd)
			}
		}
		return nil
	}
	if f := check("as built", b); f != nil {
		return f
	}
	cl := b.Clone()
	cl.RunOptimize()
	return check("after RunOptimize", cl)
}

func bound32(b *explore.BFS[*W32]) *explore.BFS[*W32] {
	b.Name = "size:" + b.Name
	b.Check = func(w *W32) *ev.Fail {
		if f := checkState32("history", w.B, w.M, false); f != nil {
			return f
		}
		return sizeBound("history", w.B, w.M)
	}
	return b
}

func runC14(c *Ctx) {
	q := c.Quick()
	corpus := corpus32(q)
	p1 := &explore.Product{Name: "corpus states", Dims: []int{len(corpus)}, Deadline: c.Budget(20, 300),
		Run: func(idx []int) (string, *ev.Fail) {
			b := corpus[idx[0]].Build()
			defer runtime.KeepAlive(b)
			return fmt.Sprint(b.B.GetSerializedSizeInBytes() % 7), sizeBound("corpus state", b.B, b.M)
		}, Describe: func(idx []int) any { return corpus[idx[0]].Name }}
	l1 := l1Pool(1, q)
	l2 := l2Pool(true)
	pool := append(append([]recipe{}, l1...), l2...)
	var execs int64
	p2 := &explore.Product{Name: "results of binary operations", Dims: []int{len(pool), len(pool), 4}, Deadline: c.Budget(60, 900), Execs: &execs,
		Run: func(idx []int) (string, *ev.Fail) {
			a, b := pool[idx[0]].Build(), pool[idx[1]].Build()
			defer runtime.KeepAlive(a)
			defer runtime.KeepAlive(b)
			op := binOps[idx[2]]
			r := op.Static(a.B, b.B)
			op.InPlace(a.B, b.B)
			want := op.Model(a.M, b.M)
			atomic.AddInt64(&execs, 2)
			if f := sizeBound(op.Name+"(a,b)", r, want); f != nil {
				return "", f
			}
			return op.Name, sizeBound("a."+op.Name+"(b)", a.B, want)
		},
		Describe: func(idx []int) any { return []string{pool[idx[0]].Name, pool[idx[1]].Name, binOps[idx[2]].Name} }}
	offs := []int64{1, -1, 65535, 65536, -65536, 4096, 1 << 31}
	p3 := &explore.Product{Name: "results of AddOffset64 / Flip", Dims: []int{len(corpus), len(offs)}, Deadline: c.Budget(75, 1100),
		Run: func(idx []int) (string, *ev.Fail) {
			b := corpus[idx[0]].Build()
			defer runtime.KeepAlive(b)
			if len(b.M.Keys()) > 20 {
				return "skipped-many-chunks", nil
			}
			d := offs[idx[1]]
			r := roaring.AddOffset64(b.B, d)
			if f := sizeBound(fmt.Sprintf("AddOffset64(%d)", d), r, b.M.Shift(d)); f != nil {
				return "", f
			}
			if mn, ok := b.M.Min(); ok {
				s := uint64(mn)
				e := s + 70000
				if e > 1<<32 {
					e = 1 << 32
				}
				fl := roaring.Flip(b.B, s, e)
				fm := b.M.Clone()
				fm.FlipRange(s, e)
				if f := sizeBound("Flip", fl, fm); f != nil {
					return "", f
				}
			}
			return "ok", nil
		}, Describe: func(idx []int) any { return []any{corpus[idx[0]].Name, offs[idx[1]]} }}
	// single-value edit histories on run-shaped chunks: long histories a bounded BFS cannot reach,
	// enumerated as a family: run width x run count x which values are edited x operation
	widths := []int{2, 3, 4, 5, 8}
	counts := []int{1, 4, 10, 100, 1000}
	patterns := []string{"trim-front", "trim-back", "trim-both", "trim-to-one", "punch-middle", "grow-gap"}
	var texecs int64
	p4 := &explore.Product{Name: "single-value edit histories on run chunks", Dims: []int{len(widths), len(counts), len(patterns), 2}, Deadline: c.Budget(90, 1250), Execs: &texecs,
		Run: func(idx []int) (string, *ev.Fail) {
			w, n, pat, checked := widths[idx[0]], counts[idx[1]], patterns[idx[2]], idx[3] == 1
			stride := w + 3
			if n*stride > 65000 {
				return "skipped-too-wide", nil
			}
			b, m := roaring.New(), model.New32()
			base := uint32(1) << 16
			for i := 0; i < n; i++ {
				lo := uint64(base) + uint64(i*stride)
				b.AddRange(lo, lo+uint64(w))
				m.AddRange(lo, lo+uint64(w))
			}
			b.RunOptimize()
			every := 1
			if n >= 100 {
				every = n / 25 // check the bound at 25 points of the history plus its end
			}
			step := func(i int, x uint32, add bool) *ev.Fail {
				if add {
					if checked {
						b.CheckedAdd(x)
					} else {
						b.Add(x)
					}
					m.Add(x)
				} else {
					if checked {
						b.CheckedRemove(x)
					} else {
						b.Remove(x)
					}
					m.Remove(x)
				}
				atomic.AddInt64(&texecs, 1)
				if i%every == 0 || i == n-1 {
					if got := extract.Of(b); !got.Equal(m) {
						return fail("Remove", "content", "content wrong during %s history: %s", pat, diff32(got, m))
					}
					return sizeBound(fmt.Sprintf("%s history (%d runs of %d), step %d", pat, n, w, i), b, m)
				}
				return nil
			}
			for i := 0; i < n; i++ {
				lo := base + uint32(i*stride)
				var f *ev.Fail
				switch pat {
				case "trim-front":
					f = step(i, lo, false)
				case "trim-back":
					f = step(i, lo+uint32(w)-1, false)
				case "trim-both":
					if f = step(i, lo, false); f == nil && w > 2 {
						f = step(i, lo+uint32(w)-1, false)
					}
				case "trim-to-one":
					for k := 1; k < w && f == nil; k++ {
						if k%2 == 1 {
							f = step(i, lo+uint32(k/2), false)
						} else {
							f = step(i, lo+uint32(w-k/2), false)
						}
					}
				case "punch-middle":
					if w >= 3 {
						f = step(i, lo+uint32(w/2), false)
					}
				case "grow-gap":
					f = step(i, lo+uint32(w), true) // one value past the run: runs creep towards each other
				}
				if f != nil {
					return "", f
				}
			}
			return pat, nil
		},
		Describe: func(idx []int) any {
			return map[string]any{"run_width": widths[idx[0]], "runs": counts[idx[1]], "pattern": patterns[idx[2]], "checked_ops": idx[3] == 1}
		}}
	mspecs, mbuild, mops := marginalFamily(q)
	var mexecs int64
	p5 := &explore.Product{Name: "operations on pairs of marginal run chunks", Dims: []int{len(mspecs), len(mspecs), len(mops)}, Deadline: c.Budget(60, 1200), Execs: &mexecs,
		Run: func(idx []int) (string, *ev.Fail) {
			a, am := mbuild(mspecs[idx[0]])
			b, bm := mbuild(mspecs[idx[1]])
			op := mops[idx[2]]
			want := op.M(am, bm)
			r := op.F(a, b)
			atomic.AddInt64(&mexecs, 1)
			if got := extract.Of(r); !got.Equal(want) {
				return "", fail(op.Name, "content", "%s wrong on marginal run chunks: %s", op.Name, diff32(got, want))
			}
			if f := sizeBound(op.Name, r, want); f != nil {
				return "", f
			}
			return op.Name + extract.Kinds(roaring.VerifViewOf(r)), nil
		},
		Describe: func(idx []int) any {
			return map[string]any{"a": fmt.Sprintf("%+v", mspecs[idx[0]]), "b": fmt.Sprintf("%+v", mspecs[idx[1]]), "op": mops[idx[2]].Name}
		}}
	f0 := bound32(bfs32("S1fix@0", s1FixOps(0), 0))
	w0 := bound32(bfs32("S1wide@1", s1WideOps(1, q), 2))
	s2 := bound32(bfs32("S2multi", s2Ops(q), 2))
	if q {
		f0.Deadline, w0.Deadline, s2.Deadline = c.Budget(95, 0), c.Budget(105, 0), c.Budget(115, 0)
	} else {
		w0.MaxDepth, s2.MaxDepth = 3, 3
		f0.Deadline, w0.Deadline, s2.Deadline = c.Budget(0, 1300), c.Budget(0, 1500), c.Budget(0, 1750)
	}
	runScenarios(c, p1, p2, p3, p4, p5, f0, w0, s2)
}
