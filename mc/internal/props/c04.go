package props

import (
	"fmt"
	"runtime"
	"sort"
	"sync/atomic"

	"github.com/RoaringBitmap/roaring/v2"
	"verifmc/internal/ev"
	"verifmc/internal/explore"
	"verifmc/internal/model"
)

func init() { Drivers["C04"] = Driver{Level: "model_checking", Run: runC04} }

// stops: early-termination positions for a list of length n.
func stops(n int) []int {
	set := map[int]struct{}{}
	for _, p := range []int{0, 1, 2, 63, 64, 65, 4095, 4096, 4097, n / 2, n - 2, n - 1, n} {
		if p >= 0 && p <= n {
			set[p] = struct{}{}
		}
	}
	if n <= 40 {
		for p := 0; p <= n; p++ {
			set[p] = struct{}{}
		}
	}
	out := make([]int, 0, len(set))
	for p := range set {
		out = append(out, p)
	}
	sort.Ints(out)
	return out
}

// drains checks every full-drain protocol and early stops. Returns evaluations.
func drains(b *roaring.Bitmap, m *model.Set32) (int, *ev.Fail) {
	L := m.Slice()
	n := 0
	cmp := func(api string, got []uint32, want []uint32) *ev.Fail {
		if !sliceEq(got, want) {
			i := 0
			for i < len(got) && i < len(want) && got[i] == want[i] {
				i++
			}
			return fail(api, "sequence", "%s yields a wrong sequence: %d values vs %d expected, first difference at position %d", api, len(got), len(want), i)
		}
		return nil
	}
	rev := make([]uint32, len(L))
	for i, v := range L {
		rev[len(L)-1-i] = v
	}
	// Iterator
	var got []uint32
	for it := b.Iterator(); it.HasNext(); {
		p := it.PeekNext()
		v := it.Next()
		if p != v {
			return n, fail("Iterator.PeekNext", "peek", "PeekNext()=%d but Next()=%d", p, v)
		}
		got = append(got, v)
		if len(got) > len(L)+2 {
			break
		}
	}
	if f := cmp("Iterator", got, L); f != nil {
		return n, f
	}
	got = got[:0]
	for it := b.ReverseIterator(); it.HasNext(); {
		got = append(got, it.Next())
		if len(got) > len(L)+2 {
			break
		}
	}
	if f := cmp("ReverseIterator", got, rev); f != nil {
		return n, f
	}
	n += 2
	for _, st := range stops(len(L)) {
		// Iterate: multiset, each element once, stop honoured
		cnt := 0
		seen := model.New32()
		dup := false
		b.Iterate(func(x uint32) bool {
			if cnt == st {
				cnt++ // would be a call after stop
				return false
			}
			if !seen.Add(x) {
				dup = true
			}
			cnt++
			return cnt < st
		})
		wantCalls := st
		if st == 0 && len(L) > 0 {
			wantCalls = 1 // the callback is called once and refuses
		}
		if st == 0 {
			// callback returns false on its first call: exactly one call if non-empty
			if len(L) > 0 && cnt != 1 || len(L) == 0 && cnt != 0 {
				return n, fail("Iterate", "stop", "Iterate: callback refusing at once was called %d times", cnt)
			}
		} else {
			if cnt != wantCalls || dup {
				return n, fail("Iterate", "stop", "Iterate with stop after %d: %d calls (dup=%v)", st, cnt, dup)
			}
			for _, x := range seen.Slice() {
				if !m.Contains(x) {
					return n, fail("Iterate", "foreign", "Iterate yielded %d which is not an element", x)
				}
			}
			if st == len(L) && !seen.Equal(m) {
				return n, fail("Iterate", "set", "Iterate (full) did not yield exactly the elements")
			}
		}
		// Values / Backward with early break
		got = got[:0]
		for v := range roaring.Values(b) {
			if len(got) == st {
				break
			}
			got = append(got, v)
		}
		if f := cmp(fmt.Sprintf("Values(stop %d)", st), got, L[:st]); f != nil {
			return n, f
		}
		got = got[:0]
		for v := range roaring.Backward(b) {
			if len(got) == st {
				break
			}
			got = append(got, v)
		}
		if f := cmp(fmt.Sprintf("Backward(stop %d)", st), got, rev[:st]); f != nil {
			return n, f
		}
		n += 3
	}
	// Ranges: maximal, disjoint, non adjacent, union == content; early stops
	want := runsOf(m)
	for _, st := range stops(len(want)) {
		i := 0
		var f *ev.Fail
		for s, e := range b.Ranges() {
			if i == st {
				break
			}
			if i >= len(want) || s != want[i][0] || e != uint64(want[i][1])+1 {
				if i < len(want) {
					f = fail("Ranges", "interval", "Ranges yields [%d,%d) as interval %d, want [%d,%d)", s, e, i, want[i][0], uint64(want[i][1])+1)
				} else {
					f = fail("Ranges", "interval", "Ranges yields an extra interval [%d,%d)", s, e)
				}
				break
			}
			i++
		}
		if f != nil {
			return n, f
		}
		if i != st {
			return n, fail("Ranges", "count", "Ranges yielded %d intervals, want %d (stop at %d)", i, len(want), st)
		}
		n++
	}
	return n, nil
}

// manySizes: NextMany buffer lengths for a state.
func manySizes(L []uint32) []int {
	set := map[int]struct{}{}
	for _, s := range []int{0, 1, 2, 3, 4, 5, 7, 8, 64, len(L) - 1, len(L), len(L) + 1} {
		if s >= 0 {
			set[s] = struct{}{}
		}
	}
	// distance to the first chunk edge +-1
	if len(L) > 0 {
		k := L[0] >> 16
		d := sort.Search(len(L), func(i int) bool { return L[i]>>16 != k })
		for _, s := range []int{d - 1, d, d + 1} {
			if s >= 0 {
				set[s] = struct{}{}
			}
		}
	}
	out := make([]int, 0, len(set))
	for s := range set {
		out = append(out, s)
	}
	sort.Ints(out)
	return out
}

func manyProtocol(b *roaring.Bitmap, m *model.Set32, depth int) (int, *ev.Fail) {
	L := m.Slice()
	sizes := manySizes(L)
	n := 0
	var seq []int
	var rec func(d int) *ev.Fail
	run := func() *ev.Fail {
		for variant := 0; variant < 2; variant++ {
			it := b.ManyIterator()
			pos := 0
			step := func(sz int) *ev.Fail {
				want := sz
				if len(L)-pos < want {
					want = len(L) - pos
				}
				if variant == 0 {
					buf := make([]uint32, sz)
					g := it.NextMany(buf)
					if g != want || !sliceEq(buf[:min(g, sz)], L[pos:pos+min(g, want)]) || g > sz {
						return fail("ManyIterator.NextMany", "chunk", "NextMany sizes %v: call with buffer %d at position %d returned %d values (want %d) or wrong values", seq, sz, pos, g, want)
					}
				} else {
					buf := make([]uint64, sz)
					const hs = uint64(0xABCD) << 32
					g := it.NextMany64(hs, buf)
					if g != want || g > sz {
						return fail("ManyIterator.NextMany64", "chunk", "NextMany64 sizes %v: call with buffer %d at position %d returned %d values (want %d)", seq, sz, pos, g, want)
					}
					for i := 0; i < g; i++ {
						if buf[i] != hs|uint64(L[pos+i]) {
							return fail("ManyIterator.NextMany64", "value", "NextMany64 sizes %v: value %d at position %d is %x want %x", seq, i, pos, buf[i], hs|uint64(L[pos+i]))
						}
					}
				}
				pos += want
				return nil
			}
			for _, sz := range seq {
				if f := step(sz); f != nil {
					return f
				}
			}
			// fixed drain
			for guard := 0; pos < len(L) && guard < len(L)+3; guard++ {
				if f := step(509); f != nil {
					return f
				}
			}
			if f := step(3); f != nil { // after the end: 0 values
				return f
			}
			n++
		}
		return nil
	}
	rec = func(d int) *ev.Fail {
		if f := run(); f != nil {
			return f
		}
		if d == depth {
			return nil
		}
		for _, s := range sizes {
			seq = append(seq, s)
			f := rec(d + 1)
			seq = seq[:len(seq)-1]
			if f != nil {
				return f
			}
		}
		return nil
	}
	return n, rec(0)
}

// advArgs: AdvanceIfNeeded arguments for a state.
func advArgs(m *model.Set32, limit int) []uint32 {
	L := m.Slice()
	set := map[uint32]struct{}{0: {}, 0xFFFFFFFF: {}}
	if len(L) > 0 {
		for _, x := range []uint32{L[0], L[len(L)/2], L[len(L)-1]} {
			set[x] = struct{}{}
			if x < 0xFFFFFFFF {
				set[x+1] = struct{}{}
			}
		}
		ks := m.Keys()
		k := ks[len(ks)/2]
		set[uint32(k)<<16] = struct{}{}                // start of a present chunk
		set[(uint32(k)+1)<<16&0xFFFFFFFF] = struct{}{} // start of the next chunk (maybe a gap)
	}
	out := make([]uint32, 0, len(set))
	for x := range set {
		out = append(out, x)
	}
	sort.Slice(out, func(i, j int) bool { return out[i] < out[j] })
	if len(out) > limit {
		// keep a spread
		var o []uint32
		for i := 0; i < limit; i++ {
			o = append(o, out[i*len(out)/limit])
		}
		out = o
	}
	return out
}

// peekMachine: all call sequences of length <= depth over {HasNext, Next, PeekNext, AdvanceIfNeeded(m)}
// on a fresh iterator, against a cursor over want (an ordered list). mk creates the iterator.
func peekMachine(api string, mk func() roaring.IntPeekable, want []uint32, args []uint32, depth int) (int, *ev.Fail) {
	nops := 3 + len(args)
	total := 1
	for i := 0; i < depth; i++ {
		total *= nops
	}
	n := 0
	seq := make([]int, depth)
	for code := 0; code < total; code++ {
		c := code
		for i := range seq {
			seq[i] = c % nops
			c /= nops
		}
		it := mk()
		pos := 0
		for step, o := range seq {
			has := pos < len(want)
			var f *ev.Fail
			describe := func() string {
				s := ""
				for _, x := range seq[:step+1] {
					switch {
					case x == 0:
						s += "HasNext "
					case x == 1:
						s += "Next "
					case x == 2:
						s += "PeekNext "
					default:
						s += fmt.Sprintf("AdvanceIfNeeded(%d) ", args[x-3])
					}
				}
				return s
			}
			switch {
			case o == 0:
				if g := it.HasNext(); g != has {
					f = fail(api+".HasNext", "value", "%s: after [%s] HasNext()=%v want %v", api, describe(), g, has)
				}
			case o == 1:
				if !has {
					goto done // Next without a next value: outside the protocol
				}
				if g := it.Next(); g != want[pos] {
					f = fail(api+".Next", "value", "%s: after [%s] Next()=%d want %d", api, describe(), g, want[pos])
				}
				pos++
			case o == 2:
				if !has {
					goto done
				}
				if g := it.PeekNext(); g != want[pos] {
					f = fail(api+".PeekNext", "value", "%s: after [%s] PeekNext()=%d want %d", api, describe(), g, want[pos])
				}
			default:
				mval := args[o-3]
				it.AdvanceIfNeeded(mval)
				for pos < len(want) && want[pos] < mval {
					pos++
				}
			}
			if f != nil {
				return n, f
			}
		}
	done:
		// final observation: the cursor agrees
		if g := it.HasNext(); g != (pos < len(want)) {
			return n, fail(api+".HasNext", "final", "%s: after sequence %v HasNext()=%v want %v", api, seq, g, pos < len(want))
		}
		if pos < len(want) {
			if g := it.Next(); g != want[pos] {
				return n, fail(api+".Next", "final", "%s: after sequence %v Next()=%d want %d", api, seq, g, want[pos])
			}
		}
		n++
	}
	return n, nil
}

// complement lists the integers of [a,b) not in m, at most limit of them.
func complement(m *model.Set32, a, b uint64, limit int) []uint32 {
	var out []uint32
	cur := a
	for _, r := range runsOf(m) {
		s, e := uint64(r[0]), uint64(r[1])
		if e < cur {
			continue
		}
		if s >= b {
			break
		}
		for x := cur; x < s && x < b; x++ {
			out = append(out, uint32(x))
			if len(out) >= limit {
				return out
			}
		}
		if e+1 > cur {
			cur = e + 1
		}
	}
	for x := cur; x < b; x++ {
		out = append(out, uint32(x))
		if len(out) >= limit {
			return out
		}
	}
	return out
}

// unsetWindows: [a,b) windows for a state.
func unsetWindows(m *model.Set32) [][2]uint64 {
	pts := map[uint64]struct{}{0: {}, 1: {}, 1 << 32: {}, 1<<32 - 1: {}}
	for _, k := range m.Keys() {
		b := uint64(k) << 16
		for _, l := range []uint64{0, 1, 64, 32768, 65535, 65536, 65537} {
			pts[b+l] = struct{}{}
		}
	}
	for _, rg := range runEdges(m, 1) {
		pts[uint64(rg[0])] = struct{}{}
		pts[uint64(rg[1])+1] = struct{}{}
	}
	var ps []uint64
	for p := range pts {
		if p <= 1<<32 {
			ps = append(ps, p)
		}
	}
	sort.Slice(ps, func(i, j int) bool { return ps[i] < ps[j] })
	var out [][2]uint64
	for i, a := range ps {
		for _, b := range ps[i:] {
			out = append(out, [2]uint64{a, b})
		}
	}
	return out
}

func unsetChecks(b *roaring.Bitmap, m *model.Set32, depth int) (int, *ev.Fail) {
	n := 0
	for wi, w := range unsetWindows(m) {
		unsetCap := 3000
		if wi%11 == 0 {
			unsetCap = 70000 // a full drain across a whole chunk on some windows
		}
		want := complement(m, w[0], w[1], unsetCap+1)
		capped := len(want) > unsetCap
		// drain (bounded)
		it := b.UnsetIterator(w[0], w[1])
		i := 0
		for ; it.HasNext() && i < unsetCap; i++ {
			p := it.PeekNext()
			v := it.Next()
			if i >= len(want) || v != want[i] || p != v {
				return n, fail("UnsetIterator", "sequence", "UnsetIterator(%d,%d): value %d is %d (peek %d), want %v", w[0], w[1], i, v, p, at(want, i))
			}
		}
		if !capped && (i != len(want) || it.HasNext()) {
			return n, fail("UnsetIterator", "count", "UnsetIterator(%d,%d) yielded %d values, want %d", w[0], w[1], i, len(want))
		}
		n++
		// the range-over-func form, inclusive max, when the window is non-empty
		if w[1] > w[0] && !capped {
			j := 0
			for v := range roaring.Unset(b, uint32(w[0]), uint32(w[1]-1)) {
				if j >= len(want) || v != want[j] {
					return n, fail("Unset", "sequence", "Unset(%d,%d): value %d is %d, want %v", w[0], w[1]-1, j, v, at(want, j))
				}
				j++
				if j == 5 && len(want) > 10 {
					break // early termination
				}
			}
			n++
		}
		// protocol machine on a few windows (uncapped ones only)
		if !capped && wi%7 == 0 && len(want) > 0 {
			args := []uint32{0, want[0], want[len(want)/2], want[len(want)-1], uint32(min64(w[1], 0xFFFFFFFF)), 0xFFFFFFFF}
			k, f := peekMachine(fmt.Sprintf("UnsetIterator(%d,%d)", w[0], w[1]), func() roaring.IntPeekable { return b.UnsetIterator(w[0], w[1]) }, want, args, depth)
			n += k
			if f != nil {
				return n, f
			}
		}
	}
	return n, nil
}

func min64(a, b uint64) uint64 {
	if a < b {
		return a
	}
	return b
}

func at(l []uint32, i int) any {
	if i < len(l) {
		return l[i]
	}
	return "nothing (end)"
}

func runC04(c *Ctx) {
	q := c.Quick()
	corpus := corpus32(q)
	small := smallCorpus32(true, 70000)
	var evals int64
	depth, mdepth := 5, 3
	if q {
		depth, mdepth = 4, 2
	}
	p1 := &explore.Product{Name: "drains + early stops + Ranges", Dims: []int{len(corpus)}, Deadline: c.Budget(30, 600),
		Run: func(idx []int) (string, *ev.Fail) {
			b := corpus[idx[0]].Build()
			defer runtime.KeepAlive(b)
			guard := readOnlyGuard("iterator", b.B, b.M)
			n, f := drains(b.B, b.M)
			atomic.AddInt64(&evals, int64(n))
			if f == nil {
				f = guard()
			}
			return fmt.Sprint(n), f
		}, Describe: func(idx []int) any { return corpus[idx[0]].Name }}
	p2 := &explore.Product{Name: fmt.Sprintf("NextMany size sequences <= %d", mdepth), Dims: []int{len(corpus)}, Deadline: c.Budget(60, 1000),
		Run: func(idx []int) (string, *ev.Fail) {
			b := corpus[idx[0]].Build()
			defer runtime.KeepAlive(b)
			guard := readOnlyGuard("iterator", b.B, b.M)
			n, f := manyProtocol(b.B, b.M, mdepth)
			atomic.AddInt64(&evals, int64(n))
			if f == nil {
				f = guard()
			}
			return fmt.Sprint(n), f
		}, Describe: func(idx []int) any { return corpus[idx[0]].Name }}
	p3 := &explore.Product{Name: fmt.Sprintf("Iterator call sequences <= %d", depth), Dims: []int{len(corpus)}, Deadline: c.Budget(85, 1300),
		Run: func(idx []int) (string, *ev.Fail) {
			b := corpus[idx[0]].Build()
			defer runtime.KeepAlive(b)
			guard := readOnlyGuard("iterator", b.B, b.M)
			n, f := peekMachine("Iterator", func() roaring.IntPeekable { return b.B.Iterator() }, b.M.Slice(), advArgs(b.M, 6), depth)
			atomic.AddInt64(&evals, int64(n))
			if f == nil {
				f = guard()
			}
			return fmt.Sprint(n), f
		}, Describe: func(idx []int) any { return corpus[idx[0]].Name }}
	p4 := &explore.Product{Name: "UnsetIterator windows + call sequences", Dims: []int{len(small)}, Deadline: c.Budget(115, 1700),
		Run: func(idx []int) (string, *ev.Fail) {
			b := small[idx[0]].Build()
			defer runtime.KeepAlive(b)
			guard := readOnlyGuard("iterator", b.B, b.M)
			n, f := unsetChecks(b.B, b.M, depth-1)
			atomic.AddInt64(&evals, int64(n))
			if f == nil {
				f = guard()
			}
			return fmt.Sprint(n), f
		}, Describe: func(idx []int) any { return small[idx[0]].Name }}
	runScenarios(c, p1, p2, p3, p4)
	c.R.SetExtra("protocol_runs", atomic.LoadInt64(&evals))
}
