package props

import (
	"fmt"
	"runtime"
	"sort"
	"sync/atomic"

	"verifmc/internal/ev"
	"verifmc/internal/explore"
	"verifmc/internal/model"
	"verifmc/internal/shapes"
)

func init() { Drivers["C15"] = Driver{Level: "model_checking", Run: runC15} }

// neighbour oracles on the sorted maximal runs of the content
type nbModel struct {
	L    []uint32
	runs [][2]uint32
}

func newNb(m *model.Set32) *nbModel { return &nbModel{L: m.Slice(), runs: runsOf(m)} }

func (n *nbModel) next(t uint32) int64 {
	i := sort.Search(len(n.L), func(i int) bool { return n.L[i] >= t })
	if i == len(n.L) {
		return -1
	}
	return int64(n.L[i])
}
func (n *nbModel) prev(t uint32) int64 {
	i := sort.Search(len(n.L), func(i int) bool { return n.L[i] > t })
	if i == 0 {
		return -1
	}
	return int64(n.L[i-1])
}
func (n *nbModel) runOf(t uint32) (int, bool) {
	i := sort.Search(len(n.runs), func(i int) bool { return n.runs[i][1] >= t })
	if i < len(n.runs) && n.runs[i][0] <= t {
		return i, true
	}
	return 0, false
}
func (n *nbModel) nextAbsent(t uint32) int64 {
	if i, ok := n.runOf(t); ok {
		if n.runs[i][1] == 0xFFFFFFFF {
			return -1
		}
		return int64(n.runs[i][1]) + 1
	}
	return int64(t)
}
func (n *nbModel) prevAbsent(t uint32) int64 {
	if i, ok := n.runOf(t); ok {
		if n.runs[i][0] == 0 {
			return -1
		}
		return int64(n.runs[i][0]) - 1
	}
	return int64(t)
}

func c15Pool(quick bool) []recipe {
	keys := []uint16{0, 1, 2, 5, 0xFFFF}
	shapesOf := []uint32{0, bit(shapes.Lo), bit(shapes.Hi), bit(shapes.LowHalf), bit(shapes.UpHalf), bit(shapes.Full), bit(shapes.Full, shapes.Hole)}
	modes := []int{shapes.Points, shapes.Opt}
	// an array chunk with interior elements next to both word and half-chunk edges
	shapesOf = append(shapesOf, bit(shapes.W, shapes.Mid))
	if !quick {
		// thorough: striped, ranged and many-run chunks as well (11 shapes ^ 5 keys x 2 modes = 322 102 states)
		shapesOf = append(shapesOf, bit(shapes.S4095, shapes.Lo, shapes.Hi), bit(shapes.Big), bit(shapes.R2047))
	}
	n := 1
	for range keys {
		n *= len(shapesOf)
	}
	var rs []recipe
	for code := 0; code < n; code++ {
		var cs []shapes.ChunkSpec
		c := code
		for _, k := range keys {
			if m := shapesOf[c%len(shapesOf)]; m != 0 {
				cs = append(cs, shapes.ChunkSpec{Key: k, Mask: m})
			}
			c /= len(shapesOf)
		}
		for _, mode := range modes {
			rs = append(rs, specRecipe(shapes.Spec{Chunks: cs, Mode: mode}))
		}
	}
	return rs
}

func runC15(c *Ctx) {
	q := c.Quick()
	pool := c15Pool(q)
	corpus := corpus32(true)
	var tks []uint32
	for _, k := range []uint32{0, 1, 2, 3, 4, 5, 6, 0x8000, 0xFFFE, 0xFFFF} {
		for _, l := range []uint32{0, 1, 32767, 32768, 32769, 65534, 65535} {
			tks = append(tks, k<<16|l)
		}
	}
	var evals int64
	check := func(r recipe, extraTargets bool) (string, *ev.Fail) {
		b := r.Build()
		defer runtime.KeepAlive(b)
		nb := newNb(b.M)
		guard := readOnlyGuard("neighbour query", b.B, b.M)
		targets := tks
		if extraTargets {
			targets = append(append([]uint32(nil), tks...), argPoints(b.M)...)
		}
		hist := [4]int{}
		for _, t := range targets {
			type q struct {
				name string
				got  int64
				want int64
			}
			qs := []q{
				{"NextValue", b.B.NextValue(t), nb.next(t)},
				{"PreviousValue", b.B.PreviousValue(t), nb.prev(t)},
				{"NextAbsentValue", b.B.NextAbsentValue(t), nb.nextAbsent(t)},
				{"PreviousAbsentValue", b.B.PreviousAbsentValue(t), nb.prevAbsent(t)},
			}
			for i, x := range qs {
				if x.got != x.want {
					return "", fail(x.name, "value", "%s(%d [key %d low %d]) = %d want %d", x.name, t, t>>16, t&0xFFFF, x.got, x.want)
				}
				if x.want == -1 {
					hist[i]++
				}
			}
			atomic.AddInt64(&evals, 4)
		}
		return fmt.Sprint(hist), guard()
	}
	p1 := &explore.Product{Name: "chunk-shape closure x targets", Dims: []int{len(pool)}, Deadline: c.Budget(70, 1200),
		Run:      func(idx []int) (string, *ev.Fail) { return check(pool[idx[0]], false) },
		Describe: func(idx []int) any { return pool[idx[0]].Name }}
	p2 := &explore.Product{Name: "corpus x targets", Dims: []int{len(corpus)}, Deadline: c.Budget(100, 1500),
		Run:      func(idx []int) (string, *ev.Fail) { return check(corpus[idx[0]], true) },
		Describe: func(idx []int) any { return corpus[idx[0]].Name }}
	runScenarios(c, p1, p2)
	c.R.SetExtra("query_evaluations", atomic.LoadInt64(&evals))
}
