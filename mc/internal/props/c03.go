package props

import (
	"bytes"
	"fmt"
	"math/bits"
	"runtime"
	"sort"
	"sync/atomic"

	"github.com/RoaringBitmap/roaring/v2"
	"verifmc/internal/ev"
	"verifmc/internal/explore"
	"verifmc/internal/extract"
	"verifmc/internal/model"
	"verifmc/internal/shapes"
)

func init() { Drivers["C03"] = Driver{Level: "model_checking", Run: runC03} }

// rangePoints: interval endpoints for a state (uint64, includes 2^32).
func rangePoints(m *model.Set32) []uint64 {
	set := map[uint64]struct{}{0: {}, 1: {}, 1 << 32: {}, 1<<32 - 1: {}} // the property quantifies a,b over [0,2^32]
	for _, k := range m.Keys() {
		b := uint64(k) << 16
		for _, l := range []uint64{0, 1, 63, 64, 65, 4096, 32768, 65535, 65536} {
			set[b+l] = struct{}{}
		}
	}
	for _, rg := range runEdges(m, 2) {
		set[uint64(rg[0])] = struct{}{}
		set[uint64(rg[1])+1] = struct{}{}
	}
	out := make([]uint64, 0, len(set))
	for x := range set {
		out = append(out, x)
	}
	sort.Slice(out, func(i, j int) bool { return out[i] < out[j] })
	return out
}

// queryBattery runs every scalar query of property C03 on b against the sorted list of m.
// It returns the number of query evaluations.
func queryBattery(b *roaring.Bitmap, m *model.Set32) (int, *ev.Fail) {
	return queryBatteryOpt(b, m, true)
}

// queryBatteryOpt: withChecksum=false leaves out the Checksum-under-round-trip clause, which
// property C03 states for library-made bitmaps only (Checksum hashes the stored form).
func queryBatteryOpt(b *roaring.Bitmap, m *model.Set32, withChecksum bool) (int, *ev.Fail) {
	n := 0
	L := m.Slice()
	card := uint64(len(L))
	beforeView := roaring.VerifViewOf(b)
	before := sigNoFlags(beforeView)
	rank := func(x uint32) uint64 { return uint64(sort.Search(len(L), func(i int) bool { return L[i] > x })) }
	if g := b.GetCardinality(); g != card {
		return n, fail("GetCardinality", "value", "GetCardinality()=%d want %d", g, card)
	}
	if b.IsEmpty() != (card == 0) {
		return n, fail("IsEmpty", "value", "IsEmpty()=%v with %d elements", b.IsEmpty(), card)
	}
	if a := b.ToArray(); !sliceEq(a, L) {
		return n, fail("ToArray", "value", "ToArray differs from the element list (len %d vs %d)", len(a), len(L))
	}
	// documented domain: the caller supplies a slice of the right size (or larger)
	for _, extra := range []int{0, 3} {
		arr := make([]uint32, len(L)+extra)
		p := b.ToExistingArray(&arr)
		if p == nil || len(*p) < len(L) || !sliceEq((*p)[:len(L)], L) {
			return n, fail("ToExistingArray", "value", "ToExistingArray(len card+%d) differs from the element list", extra)
		}
		n++
	}
	if card > 0 {
		if g := b.Minimum(); g != L[0] {
			return n, fail("Minimum", "value", "Minimum()=%d want %d", g, L[0])
		}
		if g := b.Maximum(); g != L[len(L)-1] {
			return n, fail("Maximum", "value", "Maximum()=%d want %d", g, L[len(L)-1])
		}
	}
	n += 5
	for _, x := range argPoints(m) {
		want := m.Contains(x)
		if g := b.Contains(x); g != want {
			return n, fail("Contains", "value", "Contains(%d)=%v want %v", x, g, want)
		}
		if x <= 0x7FFFFFFF {
			if g := b.ContainsInt(int(x)); g != want {
				return n, fail("ContainsInt", "value", "ContainsInt(%d)=%v want %v", x, g, want)
			}
		}
		if g, w := b.Rank(x), rank(x); g != w {
			return n, fail("Rank", "value", "Rank(%d)=%d want %d", x, g, w)
		}
		n += 3
	}
	sel := []uint64{0, 1, 2, 63, 64, 4095, 4096, 4097, 65535, 65536, 65537, 1<<32 - 1}
	if card > 0 {
		sel = append(sel, card-1, card, card+1, card/2)
	}
	for _, rg := range runEdges(m, 2) {
		r := rank(rg[0])
		sel = append(sel, r-1, r, r+1)
	}
	for _, i := range sel {
		if i > 0xFFFFFFFF {
			continue
		}
		g, err := b.Select(uint32(i))
		if i < card {
			if err != nil || g != L[i] {
				return n, fail("Select", "value", "Select(%d)=(%d,%v) want %d", i, g, err, L[i])
			}
		} else if err == nil {
			return n, fail("Select", "noerror", "Select(%d) returned %d without error on %d elements", i, g, card)
		}
		n++
	}
	rp := rangePoints(m)
	for _, a := range rp {
		for _, e := range rp {
			want := m.CardRange(a, e)
			if a >= e {
				want = 0
			}
			if g := b.CardinalityInRange(a, e); g != want {
				return n, fail("CardinalityInRange", "value", "CardinalityInRange(%d,%d)=%d want %d", a, e, g, want)
			}
			if g := b.IntersectsWithInterval(a, e); g != (want != 0) {
				return n, fail("IntersectsWithInterval", "value", "IntersectsWithInterval(%d,%d)=%v want %v", a, e, g, want != 0)
			}
			n += 2
		}
	}
	// Checksum: unchanged by Clone and by a portable round trip
	cs := b.Checksum()
	if g := b.Clone().Checksum(); g != cs {
		return n, fail("Checksum", "clone", "Checksum changes under Clone: %x vs %x", g, cs)
	}
	var buf bytes.Buffer
	if _, err := b.WriteTo(&buf); err == nil && withChecksum {
		rt := roaring.New()
		if _, err := rt.ReadFrom(bytes.NewReader(buf.Bytes())); err == nil {
			if g := rt.Checksum(); g != cs {
				return n, fail("Checksum", "roundtrip", "Checksum changes under a portable round trip: %x vs %x", g, cs)
			}
		}
		rt2 := roaring.New()
		if _, err := rt2.FromUnsafeBytes(shapes.Aligned(buf.Bytes())); err == nil {
			if g := rt2.Checksum(); g != cs {
				return n, fail("Checksum", "roundtrip-zerocopy", "Checksum changes under a zero-copy round trip: %x vs %x", g, cs)
			}
		}
	}
	n += 3
	// queries never modify
	v := roaring.VerifViewOf(b)
	// (the Clone above legitimately SETS copy-on-write flags of a bitmap in copy-on-write mode; a flag that a
	// query CLEARS would let a later write go through to a sibling, so flags may only be gained)
	for i := range v.Chunks {
		if i < len(beforeView.Chunks) && beforeView.Chunks[i].COW && !v.Chunks[i].COW {
			return n, fail("queries", "cleared-cow-flag", "read-only queries cleared the copy-on-write flag of chunk %d", v.Chunks[i].Key)
		}
	}
	if after := sigNoFlags(v); after != before {
		return n, fail("queries", "modified-representation", "read-only queries changed the representation: %s -> %s", before, after)
	}
	if got := extract.Content(v); !got.Equal(m) {
		return n, fail("queries", "modified-content", "read-only queries changed the content: %s", diff32(got, m))
	}
	return n, nil
}

func runC03(c *Ctx) {
	q := c.Quick()
	corpus := corpus32(q)
	var evals int64
	states := &explore.Product{
		Name: "corpus x queries x arguments", Dims: []int{len(corpus)}, Deadline: c.Budget(60, 900),
		Run: func(idx []int) (string, *ev.Fail) {
			b := corpus[idx[0]].Build()
			defer runtime.KeepAlive(b)
			n, f := queryBattery(b.B, b.M)
			atomic.AddInt64(&evals, int64(n))
			return fmt.Sprint(n), f
		},
		Describe: func(idx []int) any { return corpus[idx[0]].Name },
	}
	// Equals over all pairs of corpus states (equal content in different representation, and different content)
	eq := &explore.Product{
		Name: "Equals over corpus pairs", Dims: []int{len(corpus), len(corpus)}, Deadline: c.Budget(90, 1500),
		Run: func(idx []int) (string, *ev.Fail) {
			a, b := corpus[idx[0]].Build(), corpus[idx[1]].Build()
			defer runtime.KeepAlive(a)
			defer runtime.KeepAlive(b)
			want := a.M.Equal(b.M)
			if g := a.B.Equals(b.B); g != want {
				return "", fail("Equals", "value", "Equals=%v want %v", g, want)
			}
			if !a.B.Equals(a.B) {
				return "", fail("Equals", "self", "x.Equals(x) is false")
			}
			if a.B.Equals(nil) || a.B.Equals(42) {
				return "", fail("Equals", "foreign", "Equals(nil / non-bitmap) is true")
			}
			atomic.AddInt64(&evals, 3)
			return fmt.Sprint(want), nil
		},
		Describe: func(idx []int) any { return []string{corpus[idx[0]].Name, corpus[idx[1]].Name} },
	}
	// popcount kernels: all five, all lengths 0..1100, word alphabet at every position class
	maxLen := 1100
	if q {
		maxLen = 300
	}
	words := []uint64{0, 1, 1 << 63, ^uint64(0), 0xAAAAAAAAAAAAAAAA, 0x5555555555555555, 1 << 31, 0x00FF00FF00FF00FF}
	pop := &explore.Product{
		Name: "popcount kernels vs math/bits", Dims: []int{maxLen + 1, 5, len(words)}, Deadline: c.Budget(110, 1700),
		Run: func(idx []int) (string, *ev.Fail) {
			n, op, wi := idx[0], idx[1], idx[2]
			s := make([]uint64, n)
			m := make([]uint64, n)
			for i := range s {
				// position classes: the chosen word at positions = i mod 5 == wi mod 5, tail and head always set
				s[i] = words[(wi+i)%len(words)]
				m[i] = words[(wi+2*i+1)%len(words)]
			}
			if n > 0 {
				s[n-1], s[0] = words[wi], words[(wi+3)%len(words)]
			}
			want := uint64(0)
			for i := range s {
				var x uint64
				switch op {
				case 0:
					x = s[i]
				case 1:
					x = s[i] &^ m[i]
				case 2:
					x = s[i] & m[i]
				case 3:
					x = s[i] | m[i]
				case 4:
					x = s[i] ^ m[i]
				}
				want += uint64(bits.OnesCount64(x))
			}
			g1, g2 := roaring.VerifPopcnt(op, s, m)
			atomic.AddInt64(&evals, 2)
			if g1 != want || g2 != want {
				return "", fail("popcount", fmt.Sprintf("op%d", op), "popcount kernel op %d on %d words: dispatching=%d portable=%d want %d", op, n, g1, g2, want)
			}
			return fmt.Sprint(op, want%7), nil
		},
	}
	runScenarios(c, states, eq, pop)
	c.R.SetExtra("query_evaluations", atomic.LoadInt64(&evals))
}

// sigNoFlags is the representation signature (kinds, cached cardinalities, lengths, capacity classes) with the
// per-chunk copy-on-write flags left out.
func sigNoFlags(v roaring.VerifView) string {
	w := v
	w.Chunks = append([]roaring.VerifChunk(nil), v.Chunks...)
	for i := range w.Chunks {
		w.Chunks[i].COW = false
	}
	return extract.Sig(w, true)
}
