package props

import (
	"fmt"
	"math/big"
)

// Aliased arguments of the BSI update operations: the index itself as the addend of Add, the index's own existence
// bitmap as found set. A call that never returns (b.Add(b) used to grow the slice it iterates over) cannot be
// reported by an in-process oracle, so these few cases run in the subprocess cage (silence watchdog, memory limit).

type aliasCase struct {
	cfg   bsiCfg
	start map[uint64]int64
	op    string
}

func aliasCases() []aliasCase {
	starts := []map[uint64]int64{{}, {0: 0}, {0: 1}, {0: 1, 1: 0}, {0: 3, 7: 64}, {1: 127}, {0: 5, 1: 5, 7: 5}}
	var out []aliasCase
	for _, cfg := range bsiConfigs(true) {
		for _, st := range starts {
			for _, op := range []string{"Add(b itself)", "ClearValues(own existence bitmap)", "Increment(own existence bitmap)"} {
				out = append(out, aliasCase{cfg, st, op})
			}
		}
	}
	return out
}

func init() {
	CageFamilies["C19alias"] = func(tier string) (int, func(id int) string) {
		cs := aliasCases()
		return len(cs), func(id int) string {
			c := cs[id]
			w := newWB(c.cfg)()
			desc := fmt.Sprintf("%s, start %v, %s", c.cfg.Name, c.start, c.op)
			for col, v := range c.start {
				w.B.SetValue(col, v)
				w.M[col] = bigOf(v)
			}
			want := bsiModel{}
			switch c.op {
			case "Add(b itself)":
				for col, v := range w.M {
					s := new(big.Int).Add(v, v)
					if !w.inRange(s) {
						return "ok out-of-range"
					}
					want[col] = s
				}
				w.B.AddSelf()
			case "ClearValues(own existence bitmap)":
				w.B.ClearOwn()
			case "Increment(own existence bitmap)":
				for col, v := range w.M {
					s := new(big.Int).Add(v, bigOf(1))
					if !w.inRange(s) {
						return "ok out-of-range"
					}
					want[col] = s
				}
				w.B.Increment(nil, true)
			}
			w.M = want
			var evals int64
			if f := checkBSI(c.cfg, w, 1, &evals); f != nil {
				return "VIOL " + desc + ": " + f.What
			}
			return "ok"
		}
	}
}
