package props

import (
	"fmt"

	"github.com/RoaringBitmap/roaring/v2"
	"verifmc/internal/ev"
	"verifmc/internal/explore"
	"verifmc/internal/extract"
	"verifmc/internal/model"
	"verifmc/internal/shapes"
)

// The copy-on-write pair closure: an unstructured BFS over histories of two
// bitmaps that start out sharing every chunk (copy-on-write enabled, b = a.Clone())
// and a plain partner. It exists because interference bugs need *sequences* on one
// owner (un-share a slot, restructure the key table, write again) before the
// other owner is observed.

type WPair struct {
	R [4]*roaring.Bitmap // a, b, p (interleaved partner), q (wipes whole chunks of a)
	M [4]*model.Set32
}

var pairName = [4]string{"a", "b", "p", "q"}

func newWPair() *WPair {
	A := bit(shapes.Lo, shapes.W, shapes.Mid)
	a := shapes.Spec{Chunks: []shapes.ChunkSpec{{Key: 0, Mask: A}, {Key: 2, Mask: bit(shapes.S4095, shapes.Lo, shapes.Hi)}, {Key: 4, Mask: bit(shapes.Big)}, {Key: 6, Mask: A}}, Mode: shapes.Opt}.Build()
	p := shapes.Spec{Chunks: []shapes.ChunkSpec{{Key: 2, Mask: bit(shapes.Lo, shapes.Mid)}, {Key: 3, Mask: A}, {Key: 5, Mask: bit(shapes.Hi)}}, Mode: shapes.Points}.Build()
	a.B.SetCopyOnWrite(true)
	w := &WPair{}
	w.R[0], w.M[0] = a.B, a.M
	w.R[1], w.M[1] = a.B.Clone(), a.M.Clone()
	w.R[2], w.M[2] = p.B, p.M
	q := shapes.Spec{Chunks: []shapes.ChunkSpec{{Key: 0, Mask: bit(shapes.Full)}, {Key: 4, Mask: bit(shapes.Full)}, {Key: 7, Mask: bit(shapes.Hi)}}, Mode: shapes.Opt}.Build()
	w.R[3], w.M[3] = q.B, q.M
	return w
}

func pairOps(quick bool) []explore.Op[*WPair] {
	var ops []explore.Op[*WPair]
	add := func(name string, f func(w *WPair)) {
		ops = append(ops, explore.Op[*WPair]{Name: name, F: func(w *WPair) (string, *ev.Fail) { f(w); return "", nil }})
	}
	keys := []uint16{0, 2, 4, 6}
	for t := 0; t < 2; t++ {
		t := t
		n := pairName[t]
		for _, k := range keys {
			k := k
			add(fmt.Sprintf("%s.Add(first absent of chunk %d)", n, k), func(w *WPair) {
				if x, ok := firstAbsent(w.M[t], k); ok {
					w.R[t].Add(x)
					w.M[t] = w.M[t].Clone()
					w.M[t].Add(x)
				}
			})
			add(fmt.Sprintf("%s.Remove(first value of chunk %d)", n, k), func(w *WPair) {
				if x, ok := firstPresent(w.M[t], k); ok {
					w.R[t].Remove(x)
					w.M[t] = w.M[t].Clone()
					w.M[t].Remove(x)
				}
			})
		}
		rng := func(name string, lo, hi uint64, kind int) {
			add(fmt.Sprintf("%s.%s(%d,%d)", n, name, lo, hi), func(w *WPair) {
				w.M[t] = w.M[t].Clone()
				switch kind {
				case 0:
					w.R[t].RemoveRange(lo, hi)
					w.M[t].RemoveRange(lo, hi)
				case 1:
					w.R[t].AddRange(lo, hi)
					w.M[t].AddRange(lo, hi)
				default:
					w.R[t].Flip(lo, hi)
					w.M[t].FlipRange(lo, hi)
				}
			})
		}
		rng("RemoveRange", 0, 3<<16, 0)     // drops whole chunks 0 and 2: the rest slides down
		rng("RemoveRange", 2<<16, 5<<16, 0) // drops interior chunks
		rng("RemoveRange", 5, 4<<16+5, 0)   // partial first and last chunk
		rng("AddRange", 1<<16, 2<<16, 1)    // inserts a new interior chunk
		rng("Flip", 100, 3<<16, 2)
		for _, op := range binOps {
			op := op
			if quick && (op.Name == "AndNot") {
				continue
			}
			add(fmt.Sprintf("%s.%s(p)", n, op.Name), func(w *WPair) {
				op.InPlace(w.R[t], w.R[2])
				w.M[t] = op.Model(w.M[t], w.M[2])
			})
		}
		add(n+".AndNot(q)", func(w *WPair) {
			w.R[t].AndNot(w.R[3])
			w.M[t] = model.AndNot32(w.M[t], w.M[3])
		})
		add(n+".And(q)", func(w *WPair) {
			w.R[t].And(w.R[3])
			w.M[t] = model.And32(w.M[t], w.M[3])
		})
		add(n+".RunOptimize()", func(w *WPair) { w.R[t].RunOptimize() })
		add(n+".CloneCopyOnWriteContainers()", func(w *WPair) { w.R[t].CloneCopyOnWriteContainers() })
		add(n+".SetCopyOnWrite(false)", func(w *WPair) { w.R[t].SetCopyOnWrite(false) })
		o := 1 - t
		add(fmt.Sprintf("%s = %s.Clone()", pairName[o], n), func(w *WPair) {
			w.R[o] = w.R[t].Clone()
			w.M[o] = w.M[t].Clone()
		})
		add(fmt.Sprintf("%s = Or(%s,p)", pairName[o], n), func(w *WPair) {
			w.R[o] = roaring.Or(w.R[t], w.R[2])
			w.M[o] = model.Or32(w.M[t], w.M[2])
		})
	}
	return ops
}

func pairBFS(name string, quick bool, depth int, strict bool) *explore.BFS[*WPair] {
	return &explore.BFS[*WPair]{Name: name, New: newWPair, Ops: pairOps(quick), MaxDepth: depth,
		Key: func(w *WPair) string {
			s := ""
			for i := range w.R {
				s += fmt.Sprintf("%x:%s|", w.M[i].Hash(), extract.Sig(roaring.VerifViewOf(w.R[i]), false))
			}
			return s
		},
		Check: func(w *WPair) *ev.Fail {
			for i := range w.R {
				v := roaring.VerifViewOf(w.R[i])
				if got := extract.Content(v); !got.Equal(w.M[i]) {
					return fail("interference", "register:"+pairName[i], "bitmap %s no longer holds the contents its own history implies: %s", pairName[i], diff32(got, w.M[i]))
				}
				if strict {
					if f := checkValid32("history", w.R[i]); f != nil {
						return f
					}
				}
			}
			return nil
		}}
}
