package props

import (
	"fmt"
	"runtime"
	"runtime/debug"
	"sync/atomic"

	"github.com/RoaringBitmap/roaring/v2"
	"github.com/bits-and-blooms/bitset"
	"verifmc/internal/env"
	"verifmc/internal/ev"
	"verifmc/internal/explore"
	"verifmc/internal/extract"
	"verifmc/internal/model"
	"verifmc/internal/shapes"
)

func init() { Drivers["C16"] = Driver{Level: "model_checking", Run: runC16} }

// offsetPool: states over keys around the int32 / top-of-key-space edges.
func offsetPool(quick bool) []recipe {
	A := bit(shapes.Lo, shapes.W, shapes.Mid, shapes.Hi)
	B := bit(shapes.S4095, shapes.Lo, shapes.Hi)
	R := bit(shapes.Big)
	F := bit(shapes.Full)
	type ks = []shapes.ChunkSpec
	specs := []ks{
		{{Key: 0, Mask: A}},
		{{Key: 0, Mask: R}},
		{{Key: 0, Mask: F}},
		{{Key: 0, Mask: bit(shapes.Full, shapes.Hole)}},
		{{Key: 0, Mask: B}},
		{{Key: 0, Mask: bit(shapes.R2047)}},
		{{Key: 0, Mask: bit(shapes.S4095)}},
		{{Key: 1, Mask: bit(shapes.Hi)}},
		{{Key: 0, Mask: A}, {Key: 1, Mask: B}},
		{{Key: 0, Mask: F}, {Key: 1, Mask: F}},
		{{Key: 0, Mask: R}, {Key: 1, Mask: A}, {Key: 2, Mask: F}},
		{{Key: 0x7FFF, Mask: B}, {Key: 0x8000, Mask: R}},
		{{Key: 0xFFFE, Mask: R}, {Key: 0xFFFF, Mask: A}},
		{{Key: 0xFFFF, Mask: F}},
		{{Key: 0xFFFF, Mask: B}},
		{{Key: 0, Mask: A}, {Key: 0x7FFF, Mask: A}, {Key: 0x8000, Mask: A}, {Key: 0xFFFE, Mask: A}, {Key: 0xFFFF, Mask: A}},
	}
	var rs []recipe
	rs = append(rs, recipe{Name: "{empty}", Build: shapes.Spec{}.Build})
	for _, cs := range specs {
		for _, mode := range []int{shapes.Points, shapes.Opt} {
			for _, sh := range []int{shapes.Plain, shapes.COW, shapes.ZeroC} {
				if quick && sh == shapes.COW {
					continue
				}
				rs = append(rs, specRecipe(shapes.Spec{Chunks: cs, Mode: mode, Share: sh}))
			}
		}
	}
	return dedupe(rs)
}

func offsetAlphabet(m *model.Set32) []int64 {
	base := []int64{0, 1, 63, 64, 4095, 4096, 65535, 65536, 65537, 1<<31 - 1, 1 << 31, 1<<32 - 65536, 1<<32 - 1, 1 << 32, 1<<32 + 7}
	set := map[int64]struct{}{}
	for _, d := range base {
		set[d], set[-d] = struct{}{}, struct{}{}
	}
	for _, k := range m.Keys() {
		for _, e := range []int64{-1, 0, 1} {
			d := int64(k)*65536 + e
			set[d], set[-d] = struct{}{}, struct{}{}
			// moves chunk k to the very top / just past it
			t := int64(0xFFFF-int64(k))*65536 + e
			set[t] = struct{}{}
		}
	}
	var out []int64
	for d := range set {
		out = append(out, d)
	}
	return out
}

func runC16(c *Ctx) {
	q := c.Quick()
	pool := offsetPool(q)
	var oexecs, fexecs, dexecs, wexecs int64
	p1 := &explore.Product{Name: "AddOffset / AddOffset64 x offsets", Dims: []int{len(pool)}, Deadline: c.Budget(40, 700), Execs: &oexecs,
		Run: func(idx []int) (string, *ev.Fail) {
			src := pool[idx[0]].Build()
			defer runtime.KeepAlive(src)
			L := src.M.Slice()
			for _, d := range offsetAlphabet(src.M) {
				if d <= -(1<<32) || d >= 1<<32 {
					// the property quantifies d over (-2^32, 2^32); outside it only "no panic" is observed
					roaring.AddOffset64(src.B, d)
					continue
				}
				want := model.New32()
				for _, v := range L {
					if n := int64(v) + d; n >= 0 && n < 1<<32 {
						want.Add(uint32(n))
					}
				}
				r := roaring.AddOffset64(src.B, d)
				atomic.AddInt64(&oexecs, 1)
				name := fmt.Sprintf("AddOffset64(%d)", d)
				if got := extract.Of(r); !got.Equal(want) {
					return "", fail("AddOffset64", "result", "%s wrong: %s", name, diff32(got, want))
				}
				if f := checkValid32(name, r); f != nil {
					f.API = "AddOffset64"
					return "", f
				}
				if _, err := r.ToBytes(); err != nil {
					return "", fail("AddOffset64", "unserialisable", "%s result cannot be serialised: %v", name, err)
				}
				if got := extract.Of(src.B); !got.Equal(src.M) {
					return "", fail("AddOffset64", "operand-modified", "%s modified its operand: %s", name, diff32(got, src.M))
				}
				if d >= 0 && d <= 0xFFFFFFFF {
					r2 := roaring.AddOffset(src.B, uint32(d))
					if got := extract.Of(r2); !got.Equal(want) {
						return "", fail("AddOffset", "result", "AddOffset(%d) wrong: %s", d, diff32(got, want))
					}
				}
				// independence of the result (a mutation of it must not reach the operand)
				r.AddRange(0, 70000)
				r.RemoveRange(1<<32-70000, 1<<32)
				if got := extract.Of(src.B); !got.Equal(src.M) {
					return "", fail("AddOffset64", "result-aliases-operand", "mutating the result of %s changed the operand", name)
				}
			}
			return "ok", nil
		}, Describe: func(idx []int) any { return pool[idx[0]].Name }}
	corpus := corpus32(q)
	p2 := &explore.Product{Name: "static Flip vs in-place Flip x boundary ranges", Dims: []int{len(corpus)}, Deadline: c.Budget(70, 1100), Execs: &fexecs,
		Run: func(idx []int) (string, *ev.Fail) {
			src := corpus[idx[0]].Build()
			defer runtime.KeepAlive(src)
			if len(src.M.Keys()) > 12 {
				return "skipped-many-chunks", nil
			}
			rp := rangePoints(src.M)
			if len(rp) > 14 {
				rp = append(rp[:7:7], rp[len(rp)-7:]...)
			}
			for _, a := range rp {
				for _, e := range rp {
					if a > 0xFFFFFFFF && a < e {
						continue // documented panic: rangeStart > MaxUint32
					}
					if a < e && e-a > 5*65536 {
						continue // the model costs 8 KiB per touched chunk
					}
					want := src.M.Clone()
					if a < e {
						want.FlipRange(a, e)
					}
					r := roaring.Flip(src.B, a, e)
					atomic.AddInt64(&fexecs, 1)
					if got := extract.Of(r); !got.Equal(want) {
						return "", fail("Flip", "result", "Flip(b,%d,%d) wrong: %s", a, e, diff32(got, want))
					}
					if f := checkValid32(fmt.Sprintf("Flip(b,%d,%d)", a, e), r); f != nil {
						f.API = "Flip"
						return "", f
					}
					if got := extract.Of(src.B); !got.Equal(src.M) {
						return "", fail("Flip", "operand-modified", "Flip(b,%d,%d) modified b: %s", a, e, diff32(got, src.M))
					}
					cl := src.B.Clone()
					cl.Flip(a, e)
					if !cl.Equals(r) || !r.Equals(cl) {
						return "", fail("Flip", "static-vs-inplace", "Flip(b,%d,%d) differs from in-place Flip on a clone", a, e)
					}
					if a <= 0x7FFFFFFF && e <= 0x7FFFFFFF {
						if ri := roaring.FlipInt(src.B, int(a), int(e)); !ri.Equals(r) {
							return "", fail("FlipInt", "result", "FlipInt(b,%d,%d) differs from Flip", a, e)
						}
					}
					// an in-place write into every chunk of the result (one value removed, one added), then everything
					// removed: b - and, for the no-copy corpus states, the caller's bytes behind b - must not notice
					for _, k := range want.Keys() {
						if x, ok := firstPresent(want, k); ok {
							r.Remove(x)
						}
						if x, ok := firstAbsent(want, k); ok {
							r.Add(x)
						}
					}
					r.Add(12345)
					r.RemoveRange(0, 1<<32)
					if got := extract.Of(src.B); !got.Equal(src.M) {
						return "", fail("Flip", "result-aliases-operand", "mutating the result of Flip(b,%d,%d) changed b", a, e)
					}
				}
			}
			return "ok", nil
		}, Describe: func(idx []int) any { return corpus[idx[0]].Name }}
	// dense conversions of corpus states (max < 2^22)
	p3 := &explore.Product{Name: "ToDense / WriteDenseTo / FromDense / BitSet on corpus states", Dims: []int{len(corpus)}, Deadline: c.Budget(85, 1300), Execs: &dexecs,
		Run: func(idx []int) (string, *ev.Fail) {
			src := corpus[idx[0]].Build()
			defer runtime.KeepAlive(src)
			mx, ok := src.M.Max()
			if ok && mx >= 1<<22 {
				return "skipped-large-universe", nil
			}
			wantWords := 0
			if ok {
				wantWords = int(mx)/64 + 1
			}
			if g := src.B.DenseSize(); g != uint64(wantWords) {
				return "", fail("DenseSize", "value", "DenseSize()=%d want %d", g, wantWords)
			}
			want := make([]uint64, wantWords)
			for _, v := range src.M.Slice() {
				want[v>>6] |= 1 << (v & 63)
			}
			eq := func(a, b []uint64) bool {
				if len(a) != len(b) {
					return false
				}
				for i := range a {
					if a[i] != b[i] {
						return false
					}
				}
				return true
			}
			d := src.B.ToDense()
			if !eq(d, want) {
				return "", fail("ToDense", "value", "ToDense differs from the bit vector (len %d vs %d)", len(d), len(want))
			}
			w2 := make([]uint64, wantWords+3)
			src.B.WriteDenseTo(w2)
			if !eq(w2[:wantWords], want) || (w2[wantWords]|w2[wantWords+1]|w2[wantWords+2]) != 0 {
				return "", fail("WriteDenseTo", "value", "WriteDenseTo differs from the bit vector")
			}
			for _, cp := range []bool{true, false} {
				in := append([]uint64(nil), want...)
				r := roaring.FromDense(in, cp)
				if got := extract.Of(r); !got.Equal(src.M) {
					return "", fail("FromDense", "value", "FromDense(copy=%v) wrong: %s", cp, diff32(got, src.M))
				}
				if f := checkValid32(fmt.Sprintf("FromDense(copy=%v)", cp), r); f != nil {
					return "", f
				}
				if !eq(in, want) {
					return "", fail("FromDense", "caller-words-written", "FromDense(copy=%v) modified the caller's words", cp)
				}
			}
			bs := src.B.ToBitSet()
			if bs.Count() != uint(src.M.Card()) {
				return "", fail("ToBitSet", "value", "ToBitSet holds %d bits want %d", bs.Count(), src.M.Card())
			}
			for _, v := range argPoints(src.M) {
				if uint(v) < bs.Len()+64 && bs.Test(uint(v)) != src.M.Contains(v) {
					return "", fail("ToBitSet", "value", "ToBitSet bit %d is %v", v, bs.Test(uint(v)))
				}
			}
			back := roaring.FromBitSet(bs)
			if got := extract.Of(back); !got.Equal(src.M) {
				return "", fail("FromBitSet", "value", "FromBitSet(ToBitSet(b)) differs: %s", diff32(got, src.M))
			}
			b2 := bitset.New(0)
			for _, v := range src.M.Slice() {
				b2.Set(uint(v))
			}
			if got := extract.Of(roaring.FromBitSet(b2)); !got.Equal(src.M) {
				return "", fail("FromBitSet", "value", "FromBitSet of an independently built bitset differs: %s", diff32(got, src.M))
			}
			atomic.AddInt64(&dexecs, 8)
			if got := extract.Of(src.B); !got.Equal(src.M) {
				return "", fail("ToDense", "operand-modified", "dense conversion modified the bitmap")
			}
			return "ok", nil
		}, Describe: func(idx []int) any { return corpus[idx[0]].Name }}
	// word slices: lengths x word patterns x copy mode; copy=false words live in PROT_READ memory
	lens := []int{0, 1, 2, 64, 65, 100, 1023, 1024, 1025, 1124, 2047, 2048, 2049, 2148, 3072}
	slacks := []int{0, 3, 1500} // spare capacity behind the caller's word slice (the slice is carved out of a larger buffer)
	pats := []string{"zero", "ones", "sparse", "dense-first-chunk", "alternate", "last-word-only", "4096-exactly", "4097"}
	mkWords := func(n int, pat string) []uint64 {
		w := make([]uint64, n)
		for i := range w {
			switch pat {
			case "ones":
				w[i] = ^uint64(0)
			case "sparse":
				if i%7 == 0 {
					w[i] = 1<<63 | 1
				}
			case "dense-first-chunk":
				if i < 1024 {
					w[i] = 0xAAAAAAAAAAAAAAAA
				} else if i%5 == 0 {
					w[i] = 2
				}
			case "alternate":
				if i%2 == 0 {
					w[i] = 0x00FF00FF00FF00FF
				}
			case "last-word-only":
				if i == n-1 {
					w[i] = 1 << 63
				}
			case "4096-exactly":
				if i < 64 {
					w[i] = ^uint64(0)
				}
			case "4097":
				if i < 64 {
					w[i] = ^uint64(0)
				} else if i == 64 || i == 1024 {
					w[i] = 1
				}
			}
		}
		return w
	}
	p4 := &explore.Product{Name: "FromDense word slices x copy mode (no-copy words are read-only memory) x mutation sweep", Dims: []int{len(lens), len(pats), 2, len(slacks)}, Deadline: c.Budget(110, 1600), Execs: &wexecs,
		Run: func(idx []int) (string, *ev.Fail) {
			debug.SetPanicOnFault(true)
			n, pat, cp, slack := lens[idx[0]], pats[idx[1]], idx[2] == 0, slacks[idx[3]]
			words := mkWords(n, pat)
			m := model.New32()
			for i, w := range words {
				for b := 0; b < 64; b++ {
					if w&(1<<uint(b)) != 0 {
						m.Add(uint32(i*64 + b))
					}
				}
			}
			// the caller's slice is arena[:n] with cap n+slack; the spare words carry a sentinel and, like the
			// words themselves, are read-only: padding the slice in place (append) faults
			g := env.NewGuarded(8*(n+slack), true)
			defer g.Free()
			arena := g.Words()
			copy(arena, words)
			for i := n; i < n+slack; i++ {
				arena[i] = 0xDEADBEEFCAFEF00D
			}
			g.ReadOnly(true)
			callerWords := arena[:n]
			ops := sweepOps(m)
			ops = append([]op32{{Name: "(none)", F: func(w *W32) (string, *ev.Fail) { return "", nil }}}, ops...)
			for _, op := range ops {
				r := roaring.FromDense(callerWords, cp)
				w := &W32{B: r, M: m.Clone()}
				if _, f := op.F(w); f != nil {
					return "", f
				}
				atomic.AddInt64(&wexecs, 1)
				name := fmt.Sprintf("FromDense(len %d, %s, copy=%v)+%s", n, pat, cp, op.Name)
				if f := checkState32(name, w.B, w.M, false); f != nil {
					f.API = "FromDense"
					return "", f
				}
				if f := checkValid32(name, w.B); f != nil {
					f.API = "FromDense"
					return "", f
				}
				// round trip through ToDense
				if mx, ok := w.M.Max(); ok && mx >= 1<<24 {
					continue // a dense vector up to 2^32 bits is 512 MiB
				}
				if d := w.B.ToDense(); len(d) != int(w.B.DenseSize()) {
					return "", fail("ToDense", "size", "%s: ToDense has %d words, DenseSize()=%d", name, len(d), w.B.DenseSize())
				}
			}
			for i, w := range arena {
				if i < n && w != words[i] {
					return "", fail("FromDense", "caller-words-written", "the caller's words changed at %d", i)
				}
				if i >= n && w != 0xDEADBEEFCAFEF00D {
					return "", fail("FromDense", "caller-spare-capacity-written", "the memory behind the caller's slice (spare capacity) changed at word %d", i)
				}
			}
			return pat, nil
		},
		Describe: func(idx []int) any {
			return map[string]any{"len": lens[idx[0]], "pattern": pats[idx[1]], "copy": idx[2] == 0, "spare_capacity_words": slacks[idx[3]]}
		}}
	c.R.Assume("a write into caller-owned words is detected as a fault: the words are mapped PROT_READ between guard pages")
	runScenarios(c, p1, p2, p3, p4)
}
