// Package env enumerates environment answers: how much each Read delivers,
// where a Writer fails, and (generic) any finite choice sequence, explored
// deviation-bounded: choice 0 is the default answer, any other choice is a deviation.
package env

import "fmt"

// Chooser hands out choices during one execution.
type Chooser struct {
	prefix []int
	Taken  []int
	widths []int
}

// Choose returns a value in [0,n). Beyond the recorded prefix it returns 0 (the default).
func (c *Chooser) Choose(n int) int {
	i := len(c.Taken)
	v := 0
	if i < len(c.prefix) {
		v = c.prefix[i]
		if v >= n {
			panic(fmt.Sprintf("env: replay divergence: recorded choice %d at point %d but only %d alternatives now", v, i, n))
		}
	}
	c.Taken = append(c.Taken, v)
	c.widths = append(c.widths, n)
	return v
}

func NewChooser(prefix []int) *Chooser { return &Chooser{prefix: prefix} }

// Explore runs f for every choice sequence with at most bound deviations.
// f returns false to abort the whole exploration. Returns the number of executions.
func Explore(bound int, f func(c *Chooser) bool) int { return ExploreLimited(bound, 1<<30, f) }

// ExploreLimited is Explore but deviates only at the first maxPoint choice points
// (later points always take the default); the limit is part of the reported bound.
func ExploreLimited(bound, maxPoint int, f func(c *Chooser) bool) int {
	count := 0
	stop := false
	var rec func(prefix []int)
	rec = func(prefix []int) {
		if stop {
			return
		}
		c := NewChooser(prefix)
		count++
		if !f(c) {
			stop = true
			return
		}
		if len(c.Taken) < len(prefix) {
			panic("env: execution consumed fewer choices than its prefix (nondeterministic harness)")
		}
		taken := append([]int(nil), c.Taken...)
		widths := append([]int(nil), c.widths...)
		dev := 0
		for _, v := range prefix {
			if v != 0 {
				dev++
			}
		}
		for i := len(prefix); i < len(taken) && i < maxPoint && !stop; i++ {
			if dev+1 > bound {
				break
			}
			for alt := 1; alt < widths[i] && !stop; alt++ {
				np := make([]int, i+1)
				copy(np, taken[:i])
				np[i] = alt
				rec(np)
			}
		}
	}
	rec(nil)
	return count
}
