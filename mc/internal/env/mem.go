package env

import (
	"syscall"
	"unsafe"
)

const page = 4096

// Guarded is caller-owned memory between two PROT_NONE guard pages, so any
// out-of-bounds access faults, and switchable to read-only so any write faults.
// Use debug.SetPanicOnFault(true) in the goroutine that touches it.
type Guarded struct {
	all  []byte
	Data []byte
}

// NewGuarded maps n bytes; rightAlign places Data so that its end touches the
// upper guard page (catches overruns), otherwise its start touches the lower one.
func NewGuarded(n int, rightAlign bool) *Guarded {
	pages := (n + page - 1) / page
	if pages == 0 {
		pages = 1
	}
	all, err := syscall.Mmap(-1, 0, (pages+2)*page, syscall.PROT_READ|syscall.PROT_WRITE, syscall.MAP_ANON|syscall.MAP_PRIVATE)
	if err != nil {
		panic("env: mmap: " + err.Error())
	}
	if err := syscall.Mprotect(all[:page], syscall.PROT_NONE); err != nil {
		panic(err)
	}
	if err := syscall.Mprotect(all[(pages+1)*page:], syscall.PROT_NONE); err != nil {
		panic(err)
	}
	g := &Guarded{all: all}
	body := all[page : (pages+1)*page]
	if rightAlign {
		off := len(body) - n
		if n%8 == 0 {
			off &^= 7 // keep 8-byte alignment for word views
		}
		g.Data = body[off : off+n : off+n]
	} else {
		g.Data = body[0:n:n]
	}
	return g
}

// ReadOnly switches the data pages to PROT_READ (true) or back to read-write.
func (g *Guarded) ReadOnly(ro bool) {
	prot := syscall.PROT_READ | syscall.PROT_WRITE
	if ro {
		prot = syscall.PROT_READ
	}
	if err := syscall.Mprotect(g.all[page:len(g.all)-page], prot); err != nil {
		panic(err)
	}
}

// Words views Data as []uint64 (len(Data) must be a multiple of 8).
func (g *Guarded) Words() []uint64 {
	if len(g.Data) == 0 {
		return nil
	}
	return unsafe.Slice((*uint64)(unsafe.Pointer(&g.Data[0])), len(g.Data)/8)
}

func (g *Guarded) Free() {
	syscall.Munmap(g.all)
	g.all, g.Data = nil, nil
}
