package env

import (
	"bufio"
	"fmt"
	"os"
	"os/exec"
	"strconv"
	"strings"
	"sync"
	"syscall"
	"time"
)

// The subprocess cage: cases that may die fatally (out of memory, fatal fault)
// or hang run in worker subprocesses under an address-space limit. Every worker
// prints "S <id>" before and "D <id> <outcome>" after each case; the parent
// attributes a death or a silence to the case that was started last and
// restarts the worker behind it.

// ChildLoop is the worker side. run executes case id and returns its outcome
// ("ok..." or "VIOL ..."); it must recover ordinary panics itself.
func ChildLoop(total, from, stride int, memLimitBytes uint64, run func(id int) string) {
	if memLimitBytes > 0 {
		lim := syscall.Rlimit{Cur: memLimitBytes, Max: memLimitBytes}
		_ = syscall.Setrlimit(syscall.RLIMIT_AS, &lim)
	}
	w := bufio.NewWriter(os.Stdout)
	for id := from; id < total; id += stride {
		fmt.Fprintf(w, "S %d\n", id)
		w.Flush()
		out := run(id)
		fmt.Fprintf(w, "D %d %s\n", id, strings.ReplaceAll(out, "\n", " "))
		w.Flush()
	}
}

type CageResult struct {
	ID      int
	Outcome string // worker's outcome, or "DIED ..." / "HANG ..."
}

// RunCaged runs cases 0..total-1 over `workers` subprocesses of the current binary.
// childArgs must make the binary enter ChildLoop; "-from", "-stride" are appended.
func RunCaged(start, total, workers int, silence time.Duration, childArgs []string, onResult func(CageResult)) {
	var wg sync.WaitGroup
	var mu sync.Mutex
	for k := 0; k < workers; k++ {
		wg.Add(1)
		go func(offset int) {
			defer wg.Done()
			from := offset
			for from < total {
				args := append(append([]string{}, childArgs...), "-from", strconv.Itoa(from), "-stride", strconv.Itoa(workers), "-until", strconv.Itoa(total))
				cmd := exec.Command(os.Args[0], args...)
				cmd.Env = os.Environ()
				stdout, _ := cmd.StdoutPipe()
				var stderr strings.Builder
				cmd.Stderr = &limitedWriter{b: &stderr, max: 4000}
				if err := cmd.Start(); err != nil {
					mu.Lock()
					onResult(CageResult{ID: from, Outcome: "DIED cannot start worker: " + err.Error()})
					mu.Unlock()
					return
				}
				lines := make(chan string, 64)
				go func() {
					sc := bufio.NewScanner(stdout)
					sc.Buffer(make([]byte, 1<<20), 1<<20)
					for sc.Scan() {
						lines <- sc.Text()
					}
					close(lines)
				}()
				current := -1
				last := from - workers
				hung := false
			loop:
				for {
					select {
					case l, ok := <-lines:
						if !ok {
							break loop
						}
						if strings.HasPrefix(l, "S ") {
							current, _ = strconv.Atoi(l[2:])
						} else if strings.HasPrefix(l, "D ") {
							parts := strings.SplitN(l[2:], " ", 2)
							id, _ := strconv.Atoi(parts[0])
							out := ""
							if len(parts) > 1 {
								out = parts[1]
							}
							mu.Lock()
							onResult(CageResult{ID: id, Outcome: out})
							mu.Unlock()
							last = id
							current = -1
						}
					case <-time.After(silence):
						hung = true
						cmd.Process.Kill()
						break loop
					}
				}
				err := cmd.Wait()
				if current >= 0 {
					why := "DIED"
					if hung {
						why = fmt.Sprintf("HANG no progress for %s", silence)
					} else {
						es := stderr.String()
						if i := strings.Index(es, "\n\n"); i > 0 {
							es = es[:i]
						}
						why = fmt.Sprintf("DIED %v: %s", err, strings.TrimSpace(es))
					}
					mu.Lock()
					onResult(CageResult{ID: current, Outcome: why})
					mu.Unlock()
					from = current + workers
					continue
				}
				if hung {
					// silent between cases: treat as harness problem at the next case
					mu.Lock()
					onResult(CageResult{ID: last + workers, Outcome: "HANG worker silent between cases"})
					mu.Unlock()
					from = last + 2*workers
					continue
				}
				break // worker finished normally
			}
		}(start + k)
	}
	wg.Wait()
}

type limitedWriter struct {
	b   *strings.Builder
	max int
}

func (l *limitedWriter) Write(p []byte) (int, error) {
	if room := l.max - l.b.Len(); room > 0 {
		if len(p) > room {
			l.b.Write(p[:room])
		} else {
			l.b.Write(p)
		}
	}
	return len(p), nil
}
