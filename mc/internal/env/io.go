package env

import (
	"errors"
	"io"
)

// ScriptReader delivers data; every Read answer is a choice:
// 0 = everything asked (or everything left), 1.. = a short delivery.
type ScriptReader struct {
	Data      []byte
	Pos       int
	C         *Chooser
	Calls     int
	EOFStyle  int // 0: (n,nil) then (0,EOF); 1: (n,EOF) together with the last bytes
	Delivered int
}

var shortSizes = []int{1, 2, 3, 7, 0}

func (r *ScriptReader) Read(p []byte) (int, error) {
	r.Calls++
	left := len(r.Data) - r.Pos
	if left == 0 {
		return 0, io.EOF
	}
	if len(p) == 0 {
		return 0, nil
	}
	want := len(p)
	if want > left {
		want = left
	}
	n := want
	if r.C != nil {
		// alternatives: full, then each short size that is really shorter, then "half"
		alts := []int{want}
		for _, s := range shortSizes {
			if s < want {
				alts = append(alts, s)
			}
		}
		if want/2 > 7 {
			alts = append(alts, want/2)
		}
		n = alts[r.C.Choose(len(alts))]
	}
	copy(p, r.Data[r.Pos:r.Pos+n])
	r.Pos += n
	r.Delivered += n
	if r.EOFStyle == 1 && r.Pos == len(r.Data) && n > 0 {
		return n, io.EOF
	}
	return n, nil
}

var ErrInjected = errors.New("injected write failure")

// FailWriter accepts FailAt bytes and then fails. Mode 0: the failing Write
// accepts nothing; mode 1: it accepts the bytes up to the limit and reports the error (short write).
type FailWriter struct {
	FailAt  int
	Mode    int
	Written []byte
}

func (w *FailWriter) Write(p []byte) (int, error) {
	room := w.FailAt - len(w.Written)
	if len(p) <= room {
		w.Written = append(w.Written, p...)
		return len(p), nil
	}
	if w.Mode == 1 && room > 0 {
		w.Written = append(w.Written, p[:room]...)
		return room, ErrInjected
	}
	return 0, ErrInjected
}
