package explore

import "testing"

// strideOrder must be a permutation for every size (a product that completes visits every case).
func TestStrideOrderIsPermutation(t *testing.T) {
	for _, n := range []int{0, 1, 2, 3, 4, 5, 6, 7, 8, 9, 10, 12, 16, 30, 97, 100, 1024, 4095, 4096, 65536, 99991, 1 << 20, 51345714 % 1000003} {
		p := strideOrder(n)
		seen := make([]bool, n)
		for i := 0; i < n; i++ {
			j := p(i)
			if j < 0 || j >= n || seen[j] {
				t.Fatalf("n=%d: i=%d -> %d (out of range or repeated)", n, i, j)
			}
			seen[j] = true
		}
	}
	// very large totals: no overflow, stays in range
	p := strideOrder(1 << 40)
	for _, i := range []int{0, 1, 1<<40 - 1, 1 << 39} {
		if j := p(i); j < 0 || j >= 1<<40 {
			t.Fatalf("out of range %d", j)
		}
	}
}
