// Package explore holds the two exhaustive enumerators used by every check:
// BFS (explicit-state search over operation histories of the real objects,
// successor = replay of the shortest witness path on fresh objects + one op)
// and Product (complete enumeration of a finite index space of cases).
package explore

import (
	"crypto/sha256"
	"encoding/hex"
	"encoding/json"
	"fmt"
	"math/bits"
	"os"
	"runtime"
	"runtime/debug"
	"sort"
	"strconv"
	"strings"
	"sync"
	"sync/atomic"
	"time"

	"verifmc/internal/ev"
)

func Workers() int {
	n := runtime.NumCPU()
	if n > 16 {
		n = 16
	}
	if n < 1 {
		n = 1
	}
	return n
}

// Op is one letter of a BFS alphabet. F applies the operation to the world
// (real objects and models alike) and checks the per-transition oracle; it
// returns an outcome label (for distinct-outcome counting) and a failure.
type Op[W any] struct {
	Name string
	F    func(w W) (outcome string, f *ev.Fail)
}

type BFS[W any] struct {
	Name      string
	New       func() W
	Ops       []Op[W]
	Key       func(w W) string         // canonical state key: content + hidden representation
	Check     func(w W) *ev.Fail       // state invariant, evaluated in every reached state
	Visit     func(w W, path []string) // optional: called once per new state (single threaded)
	Close     func(w W)                // optional: releases resources of a world after it was observed
	MaxDepth  int                      // 0 = until fixpoint
	Deadline  time.Time                // zero = none; hitting it ends the run with exhaustive=false
	MaxStates int                      // 0 = none
}

type node struct {
	path []int32
}

func pathNames[W any](b *BFS[W], p []int32) []string {
	out := make([]string, len(p))
	for i, x := range p {
		out[i] = b.Ops[x].Name
	}
	return out
}

func lessPath(a, b []int32) bool {
	for i := range a {
		if i >= len(b) {
			return false
		}
		if a[i] != b[i] {
			return a[i] < b[i]
		}
	}
	return len(a) < len(b)
}

type cand struct {
	key  string
	path []int32
}

// safe runs f and converts a panic into a failure.
func safe(scn string, c any, f func() (string, *ev.Fail)) (out string, fl *ev.Fail) {
	defer func() {
		if r := recover(); r != nil {
			st := string(debug.Stack())
			if len(st) > 1500 {
				st = st[:1500]
			}
			fl = &ev.Fail{Scenario: scn, Case: c, What: fmt.Sprintf("panic: %v", r), API: "panic", Shape: fmt.Sprint(r), Extra: map[string]any{"stack": st}}
		}
	}()
	return f()
}

// exec replays path on a fresh world; returns the world, outcome of the last op and any failure.
func (b *BFS[W]) exec(path []int32) (w W, outcome string, fl *ev.Fail) {
	names := pathNames(b, path)
	outcome, fl = safe(b.Name, names, func() (string, *ev.Fail) {
		w = b.New()
		var o string
		for i, x := range path {
			var f *ev.Fail
			o, f = b.Ops[x].F(w)
			if f != nil {
				f.Scenario, f.Case = b.Name, pathNames(b, path[:i+1])
				return o, f
			}
		}
		if b.Check != nil {
			if f := b.Check(w); f != nil {
				f.Scenario, f.Case = b.Name, names
				return o, f
			}
		}
		return o, nil
	})
	return
}

// Run explores and reports into r.
func (b *BFS[W]) Run(r *ev.Run) {
	t0 := time.Now()
	seen := map[string]struct{}{}
	outcomes := map[string]struct{}{}
	w0, _, f0 := b.exec(nil)
	if f0 != nil {
		r.Report(f0)
		r.AddScenario(ev.ScenarioStat{Name: b.Name, States: 1, Transitions: 1, WallS: time.Since(t0).Seconds()})
		return
	}
	seen[compactKey(b.Key(w0))] = struct{}{}
	if b.Visit != nil {
		b.Visit(w0, nil)
	}
	if b.Close != nil {
		b.Close(w0)
	}
	frontier := []node{{}}
	var trans int64
	depth := 0
	exhaustive := false
	bound := ""
	pruned := 0
	stop := false
	nw := Workers()
	for len(frontier) > 0 {
		if b.MaxDepth > 0 && depth >= b.MaxDepth {
			bound = fmt.Sprintf("depth %d completed (cap), frontier %d unexpanded", depth, len(frontier))
			break
		}
		if stop {
			bound = fmt.Sprintf("stopped after first violation at depth %d", depth)
			break
		}
		type task struct{ n, op int }
		total := len(frontier) * len(b.Ops)
		var next int64
		var mu sync.Mutex
		var cands []cand
		localOut := make([]map[string]struct{}, nw)
		timedOut := int32(0)
		var wg sync.WaitGroup
		for wi := 0; wi < nw; wi++ {
			wg.Add(1)
			localOut[wi] = map[string]struct{}{}
			go func(wi int) {
				defer wg.Done()
				var lc []cand
				for {
					i := int(atomic.AddInt64(&next, 1) - 1)
					if i >= total {
						break
					}
					if !b.Deadline.IsZero() && i%64 == 0 && time.Now().After(b.Deadline) {
						atomic.StoreInt32(&timedOut, 1)
						break
					}
					n, op := i/len(b.Ops), i%len(b.Ops)
					p := make([]int32, len(frontier[n].path)+1)
					copy(p, frontier[n].path)
					p[len(p)-1] = int32(op)
					w, out, fl := b.exec(p)
					atomic.AddInt64(&trans, 1)
					if fl != nil {
						if b.Close != nil {
							b.closeSafe(w)
						}
						if len(fl.Case.([]string)) != len(p) {
							r.HarnessError(fmt.Sprintf("%s: replay of an already accepted prefix failed (nondeterminism): %v: %s", b.Name, fl.Case, fl.What))
							continue
						}
						if r.Report(fl) {
							mu.Lock()
							pruned++
							mu.Unlock()
						} else {
							mu.Lock()
							stop = true
							mu.Unlock()
						}
						continue
					}
					localOut[wi][b.Ops[op].Name+"="+out] = struct{}{}
					lc = append(lc, cand{compactKey(b.Key(w)), p})
					if b.Close != nil {
						b.Close(w)
					}
				}
				mu.Lock()
				cands = append(cands, lc...)
				mu.Unlock()
			}(wi)
		}
		wg.Wait()
		for _, m := range localOut {
			for k := range m {
				outcomes[k] = struct{}{}
			}
		}
		if timedOut != 0 {
			bound = fmt.Sprintf("deadline hit while expanding depth %d; depth %d fully covered", depth+1, depth)
			break
		}
		// deterministic representative per new key: smallest path
		best := map[string][]int32{}
		for _, c := range cands {
			if _, ok := seen[c.key]; ok {
				continue
			}
			if p, ok := best[c.key]; !ok || lessPath(c.path, p) {
				best[c.key] = c.path
			}
		}
		keys := make([]string, 0, len(best))
		for k := range best {
			keys = append(keys, k)
		}
		sort.Slice(keys, func(i, j int) bool { return lessPath(best[keys[i]], best[keys[j]]) })
		frontier = frontier[:0]
		for _, k := range keys {
			seen[k] = struct{}{}
			frontier = append(frontier, node{best[k]})
			if b.Visit != nil {
				w, _, _ := b.exec(best[k])
				b.Visit(w, pathNames(b, best[k]))
				if b.Close != nil {
					b.Close(w)
				}
			}
		}
		depth++
		if len(frontier) == 0 {
			exhaustive = true
			bound = fmt.Sprintf("fixpoint: all histories of any length over %d operations", len(b.Ops))
		}
		if b.MaxStates > 0 && len(seen) > b.MaxStates && len(frontier) > 0 {
			bound = fmt.Sprintf("state cap %d hit after completing depth %d", b.MaxStates, depth)
			break
		}
		if len(frontier) > 0 && len(frontier[0].path) > 0 && depth <= 3 {
			r.Sample(map[string]any{"scenario": b.Name, "history": pathNames(b, frontier[len(frontier)/2].path)})
		}
	}
	r.AddScenario(ev.ScenarioStat{Name: b.Name, States: int64(len(seen)), Transitions: trans, MaxDepth: depth, Exhaustive: exhaustive, Bound: bound, Outcomes: len(outcomes),
		Extra: map[string]any{"alphabet": len(b.Ops), "pruned_known": pruned}, WallS: time.Since(t0).Seconds()})
}

func (b *BFS[W]) closeSafe(w W) {
	defer func() { recover() }()
	b.Close(w)
}

// Replay executes one recorded history (op names).
func (b *BFS[W]) Replay(r *ev.Run, raw json.RawMessage) {
	var names []string
	if err := json.Unmarshal(raw, &names); err != nil {
		r.HarnessError("bad replay case: " + err.Error())
		return
	}
	idx := map[string]int32{}
	for i, o := range b.Ops {
		idx[o.Name] = int32(i)
	}
	p := make([]int32, len(names))
	for i, n := range names {
		x, ok := idx[n]
		if !ok {
			r.HarnessError("replay: unknown op " + n)
			return
		}
		p[i] = x
	}
	w, _, fl := b.exec(p)
	if b.Close != nil {
		b.closeSafe(w)
	}
	if fl != nil {
		r.Report(fl)
	}
}

// Product enumerates every index vector of Dims.
type Product struct {
	Name     string
	Dims     []int
	Run      func(idx []int) (outcome string, f *ev.Fail) // must be safe for concurrent use on distinct idx
	Describe func(idx []int) any
	Deadline time.Time
	Extra    map[string]any
	// Execs, when set, is incremented by Run with the number of real executions
	// of the implementation inside each case; it is then what "transitions" reports.
	Execs *int64
}

func (p *Product) total() int {
	t := 1
	for _, d := range p.Dims {
		t *= d
	}
	return t
}

func (p *Product) decode(i int) []int {
	idx := make([]int, len(p.Dims))
	for k := len(p.Dims) - 1; k >= 0; k-- {
		idx[k] = i % p.Dims[k]
		i /= p.Dims[k]
	}
	return idx
}

func (p *Product) one(idx []int) (string, *ev.Fail) {
	out, fl := safe(p.Name, idx, func() (string, *ev.Fail) { return p.Run(idx) })
	if fl != nil {
		fl.Scenario = p.Name
		fl.Case = idx
		if p.Describe != nil {
			if fl.Extra == nil {
				fl.Extra = map[string]any{}
			}
			fl.Extra["case_description"] = p.Describe(idx)
		}
	}
	return out, fl
}

// compactKey keeps short canonical keys as they are and replaces long ones (a representation signature of a bitmap with
// tens of thousands of chunks is half a megabyte) by a 128-bit digest plus the length: the seen-set of a closure with
// 10^5 such states would otherwise need tens of gigabytes. A digest collision would merge two states (hiding one); at
// 128 bits this is not a practical concern.
func compactKey(k string) string {
	if len(k) <= 160 {
		return k
	}
	sum := sha256.Sum256([]byte(k))
	return hex.EncodeToString(sum[:16]) + "#" + strconv.Itoa(len(k))
}

// strideOrder returns a fixed permutation of 0..total-1: i -> i*stride mod total with stride
// coprime to total and close to total/phi. A product that completes visits every case either
// way; one that is cut by its deadline has then sampled every dimension evenly instead of
// leaving the tail of its first dimension untouched (such a run is reported exhaustive=false).
func strideOrder(total int) func(int) int {
	if total < 4 {
		return func(i int) int { return i }
	}
	stride := uint64(float64(total) * 0.6180339887)
	for gcd(stride, uint64(total)) != 1 {
		stride++
	}
	t := uint64(total)
	return func(i int) int {
		hi, lo := bits.Mul64(uint64(i), stride)
		_, rem := bits.Div64(hi, lo, t)
		return int(rem)
	}
}

func gcd(a, b uint64) uint64 {
	for b != 0 {
		a, b = b, a%b
	}
	return a
}

func (p *Product) Exec(r *ev.Run) {
	t0 := time.Now()
	total := p.total()
	perm := strideOrder(total)
	var next, done, nfail int64
	nw := Workers()
	outs := make([]map[string]struct{}, nw)
	timedOut := int32(0)
	var wg sync.WaitGroup
	for wi := 0; wi < nw; wi++ {
		wg.Add(1)
		outs[wi] = map[string]struct{}{}
		go func(wi int) {
			defer wg.Done()
			for {
				i := int(atomic.AddInt64(&next, 1) - 1)
				if i >= total {
					return
				}
				if !p.Deadline.IsZero() && i%32 == 0 && time.Now().After(p.Deadline) {
					atomic.StoreInt32(&timedOut, 1)
					return
				}
				if atomic.LoadInt64(&nfail) >= 200 {
					atomic.StoreInt32(&timedOut, 2)
					return
				}
				idx := p.decode(perm(i))
				out, fl := p.one(idx)
				atomic.AddInt64(&done, 1)
				if fl != nil {
					if !r.Report(fl) {
						atomic.AddInt64(&nfail, 1)
					}
					continue
				}
				if len(outs[wi]) < 100000 {
					outs[wi][out] = struct{}{}
				}
			}
		}(wi)
	}
	wg.Wait()
	all := map[string]struct{}{}
	for _, m := range outs {
		for k := range m {
			all[k] = struct{}{}
		}
	}
	bound := fmt.Sprintf("complete product %v", p.Dims)
	if timedOut == 1 {
		bound = fmt.Sprintf("deadline hit: %d of %d cases of product %v, visited in a fixed golden-ratio stride order over the index space (spread over every dimension; no sub-product is complete)", done, total, p.Dims)
	} else if timedOut == 2 {
		bound = fmt.Sprintf("stopped after 200 failures: %d of %d cases", done, total)
	}
	if p.Describe != nil && total > 0 {
		r.Sample(map[string]any{"scenario": p.Name, "case": p.Describe(p.decode(total / 2))})
	}
	trans := done
	if p.Execs != nil {
		trans = atomic.LoadInt64(p.Execs)
	}
	r.AddScenario(ev.ScenarioStat{Name: p.Name, States: done, Transitions: trans, Exhaustive: timedOut == 0, Bound: bound, Outcomes: len(all), Extra: p.Extra, WallS: time.Since(t0).Seconds()})
}

func (p *Product) Replay(r *ev.Run, raw json.RawMessage) {
	var idx []int
	if err := json.Unmarshal(raw, &idx); err != nil || len(idx) != len(p.Dims) {
		r.HarnessError("bad replay case for product " + p.Name)
		return
	}
	for k := range idx {
		if idx[k] < 0 || idx[k] >= p.Dims[k] {
			r.HarnessError("replay index out of range for product " + p.Name)
			return
		}
	}
	_, fl := p.one(idx)
	if fl != nil {
		r.Report(fl)
	}
}

// Scenario is what a property driver registers: something that can run fully or replay one case.
type Scenario interface {
	ScenarioName() string
	Exec(r *ev.Run)
	Replay(r *ev.Run, raw json.RawMessage)
}

func (b *BFS[W]) ScenarioName() string  { return b.Name }
func (b *BFS[W]) Exec(r *ev.Run)        { b.Run(r) }
func (p *Product) ScenarioName() string { return p.Name }

// RunAll runs the scenarios (or only the one named in a replay document).
func RunAll(r *ev.Run, scs []Scenario, replay *ev.ReplayDoc) {
	if replay != nil {
		for _, s := range scs {
			if s.ScenarioName() == replay.Scenario {
				s.Replay(r, replay.Case)
				return
			}
		}
		r.HarnessError("replay: unknown scenario " + replay.Scenario)
		return
	}
	only := os.Getenv("VERIF_ONLY_SCENARIO") // development aid: run the scenarios whose name contains this
	for _, s := range scs {
		if only != "" && !strings.Contains(s.ScenarioName(), only) {
			continue
		}
		s.Exec(r)
	}
}
