package vsched

import (
	"fmt"
	"strings"
)

// correctly synchronised micro-programs: no failure, no race report under any schedule;
// their racy / broken twins: reported.

func pipeline(racy bool) func() (string, string) {
	return func() (string, string) {
		ch := NewChan[*int](1)
		done := NewChan[int](0)
		shared := 0
		Go(func() {
			for i := 0; i < 3; i++ {
				v := i
				if racy {
					shared = i // unsynchronised write, read by the consumer
				}
				ch.Send(&v)
			}
			ch.Close()
		})
		Go(func() {
			sum := 0
			for {
				p, ok := ch.Recv2()
				if !ok {
					break
				}
				sum += *p
				if racy {
					sum += shared * 0
				}
			}
			done.Send(sum)
		})
		if got := done.Recv(); got != 3 {
			return "", "wrong sum"
		}
		return "3", ""
	}
}

func workers(bug string) func() (string, string) {
	return func() (string, string) {
		var wg WaitGroup
		res := NewChan[int](2)
		total := 0
		n := 2
		for i := 0; i < n; i++ {
			if bug != "add-after-go" {
				wg.Add(1)
			}
			i := i
			Go(func() {
				if bug == "add-after-go" {
					wg.Add(1)
				}
				defer wg.Done()
				if bug == "race" {
					total += i + 1
				}
				res.Send(i + 1)
			})
		}
		wg.Wait()
		if bug != "close-early" {
			res.Close()
		}
		sum := 0
		if bug == "close-early" {
			// never closed: ranging would block for ever
			for k := 0; k < n+1; k++ {
				v, ok := res.Recv2()
				if !ok {
					break
				}
				sum += v
			}
		} else {
			for {
				v, ok := res.Recv2()
				if !ok {
					break
				}
				sum += v
			}
		}
		if sum != 3 {
			return "", "wrong sum"
		}
		return "3", ""
	}
}

func selectLoop() (string, string) {
	a := NewChan[int](0)
	b := NewChan[string](0)
	out := NewChan[int](0)
	Go(func() {
		got := 0
		for got < 2 {
			i, x, y := Select2(a, b)
			if i == 0 && x == 7 || i == 1 && y == "s" {
				got++
			}
		}
		out.Send(got)
	})
	Go(func() { a.Send(7) })
	b.Send("s")
	if out.Recv() != 2 {
		return "", "select lost a message"
	}
	return "2", ""
}

func poolReuse(racy bool) func() (string, string) {
	var p Pool
	return func() (string, string) {
		p.New = func() any { return new([4]int) }
		var wg WaitGroup
		for i := 0; i < 2; i++ {
			wg.Add(1)
			Go(func() {
				defer wg.Done()
				x := p.Get().(*[4]int)
				x[0]++
				if !racy {
					p.Put(x)
				} else {
					p.Put(x)
					x[1]++ // use after Put: races with the next Get's user
				}
			})
		}
		wg.Wait()
		return "ok", ""
	}
}

// SelfTest checks the scheduler and (in a -race build) the happens-before
// annotations: correct micro-programs must show no failure and no race under any
// schedule, their broken twins must be reported. It returns the list of problems
// and a log.
func SelfTest() (problems []string, log []string) {
	type tc struct {
		name     string
		body     func() (string, string)
		wantBad  string // "" = must pass; otherwise substring of the failure
		raceOnly bool
	}
	cases := []tc{
		{"pipeline", pipeline(false), "", false},
		{"pipeline racy", pipeline(true), "data race", true},
		{"workers", workers(""), "", false},
		{"workers racy", workers("race"), "data race", true},
		{"workers wg.Add after go", workers("add-after-go"), "closed channel", false},
		{"workers never closed", workers("close-early"), "deadlock", false},
		{"select", selectLoop, "", false},
		{"pool", poolReuse(false), "", false},
		{"pool racy", poolReuse(true), "data race", true},
	}
	for _, c := range cases {
		r := Explore(2, 200000, 10000, c.body)
		switch {
		case c.wantBad == "" && r.Failure != nil:
			problems = append(problems, fmt.Sprintf("%s: unexpected failure: %s", c.name, r.Failure))
		case c.wantBad != "" && c.raceOnly && !RaceEnabled:
			if r.Failure != nil {
				problems = append(problems, fmt.Sprintf("%s: failure without race detector: %s", c.name, r.Failure))
			}
		case c.wantBad != "" && (r.Failure == nil || !strings.Contains(r.Failure.What, c.wantBad)):
			problems = append(problems, fmt.Sprintf("%s: expected a failure containing %q, got %v after %d executions", c.name, c.wantBad, r.Failure, r.Executions))
		}
		log = append(log, fmt.Sprintf("%-28s executions=%d maxPoints=%d complete=%v failure=%v", c.name, r.Executions, r.MaxPoints, r.Complete, r.Failure != nil))
	}
	return
}
