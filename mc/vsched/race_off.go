//go:build !race

package vsched

import "unsafe"

const RaceEnabled = false

func raceAcquire(p unsafe.Pointer)      {}
func raceReleaseMerge(p unsafe.Pointer) {}
func raceErrors() int                   { return 0 }
