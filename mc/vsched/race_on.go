//go:build race

package vsched

import (
	"runtime"
	"unsafe"
)

const RaceEnabled = true

func raceAcquire(p unsafe.Pointer)      { runtime.RaceAcquire(p) }
func raceReleaseMerge(p unsafe.Pointer) { runtime.RaceReleaseMerge(p) }
func raceErrors() int                   { return runtime.RaceErrors() }
