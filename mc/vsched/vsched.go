// Package vsched is a controlled scheduler for the goroutine code of the library.
// The library's concurrency constructs (go, channels, select, sync.WaitGroup,
// sync.Pool, atomic add, runtime.NumCPU) are rewritten to calls into this package
// (cmd/chanrewrite + go build -overlay). Every virtual thread is a real goroutine,
// but exactly one holds the baton; every shim call is a scheduling point; the
// explorer enumerates all schedules up to a preemption bound.
//
// The baton hand-off is deliberately invisible to the race detector (plain word,
// //go:norace, spinning) and the shim primitives emit exactly the Go memory model's
// happens-before edges through runtime.RaceAcquire/RaceReleaseMerge, so that a
// -race build of the explorer checks every explored schedule for data races.
package vsched

import (
	"fmt"
	"runtime"
	"sync/atomic"
	"unsafe"
)

// ---- baton -----------------------------------------------------------------

var baton int32 = -1 // id of the thread allowed to run; -1 = the controller

//go:norace
func batonWait(id int32) {
	for baton != id {
		runtime.Gosched()
	}
}

//go:norace
func batonSet(id int32) { baton = id }

// ---- scheduler state ---------------------------------------------------------

const (
	opNone = iota
	opStart
	opSend
	opSendDone
	opRecv
	opSelect
	opClose
	opWgAdd
	opWgWait
	opPool
	opAtomic
	opSpawn
)

var opNames = [...]string{"none", "start", "send", "send-complete", "recv", "select", "close", "wg.Add/Done", "wg.Wait", "pool", "atomic", "go"}

type waiter struct {
	t         *thread
	chans     []*core
	committed *core
	it        *item
}

type thread struct {
	id   int   // index within the execution (canonical order, traces)
	gid  int32 // globally unique baton id: parked goroutines of earlier executions must never wake up
	done bool
	op   int
	// operands of the announced operation
	ch  *core
	w   *waiter
	it  *item
	wg  *WaitGroup
	str string
}

type pointInfo struct {
	n              int  // number of alternatives
	runningEnabled bool // alternative 0 is "continue the running thread"
	env            bool // an environment choice (pool), not a thread choice
}

type sched struct {
	threads  []*thread
	running  *thread
	prefix   []int
	choices  []int
	points   []pointInfo
	steps    int
	maxSteps int
	failure  string
	mainDone bool
	ended    bool
	trace    []string
}

var cur *sched

var nextGid int32 = 1

var execTok byte // thread exit -> controller edge (between executions only)

//go:norace
func newThread(id int) *thread {
	nextGid++
	return &thread{id: id, gid: nextGid, op: opStart}
}

//go:norace
func current() (*sched, *thread) {
	if cur == nil || cur.running == nil {
		panic("vsched: concurrency primitive used outside vsched.Explore")
	}
	return cur, cur.running
}

//go:norace
func (t *thread) enabled() bool {
	switch t.op {
	case opSend:
		c := t.ch
		if c.closed {
			return true // will panic, like Go
		}
		if c.cap > 0 {
			return len(c.buf) < c.cap
		}
		return c.uncommittedWaiter() != nil
	case opSendDone:
		return t.it.taken
	case opRecv, opSelect:
		if t.w.committed != nil {
			return true
		}
		for _, c := range t.w.chans {
			if len(c.buf) > 0 || c.closed {
				return true
			}
		}
		return false
	case opWgWait:
		return t.wg.n == 0
	}
	return true
}

// choose records a decision among n alternatives (alternative 0 is the default).
//
//go:norace
func (s *sched) choose(n int, runningEnabled, env bool) int {
	if n <= 1 {
		return 0
	}
	i := len(s.choices)
	v := 0
	if i < len(s.prefix) {
		v = s.prefix[i]
		if v >= n {
			s.fail(fmt.Sprintf("HARNESS: replay divergence at decision %d: recorded choice %d of %d alternatives", i, v, n))
			v = 0
		}
	}
	s.choices = append(s.choices, v)
	s.points = append(s.points, pointInfo{n, runningEnabled, env})
	return v
}

//go:norace
func (s *sched) fail(msg string) {
	if s.failure == "" {
		s.failure = msg
	}
}

// pick selects the next thread to run. me is the calling thread (may be done).
//
//go:norace
func (s *sched) pick(me *thread) *thread {
	var en []*thread
	meEnabled := !me.done && me.enabled()
	if meEnabled {
		en = append(en, me)
	}
	for _, t := range s.threads {
		if t != me && !t.done && t.enabled() {
			en = append(en, t)
		}
	}
	if len(en) == 0 {
		return nil
	}
	return en[s.choose(len(en), meEnabled, false)]
}

// announce is the scheduling point before an operation: the thread publishes its
// next operation, the scheduler picks who runs, and the call returns when this
// thread has the baton and its operation is enabled.
//
//go:norace
func (s *sched) announce(me *thread, op int) {
	me.op = op
	s.steps++
	if s.steps > s.maxSteps {
		s.fail(fmt.Sprintf("step limit %d exceeded (livelock?)", s.maxSteps))
		s.end(me)
	}
	next := s.pick(me)
	if next == nil {
		s.stuck()
		s.end(me)
	}
	if next != me {
		s.running = next
		batonSet(next.gid)
		batonWait(me.gid)
	}
	if len(s.trace) < 4000 {
		s.trace = append(s.trace, fmt.Sprintf("t%d:%s", me.id, opNames[op]))
	}
	me.op = opNone
}

// stuck records a deadlock / leak: no thread is enabled.
//
//go:norace
func (s *sched) stuck() {
	what := ""
	for _, t := range s.threads {
		if !t.done {
			what += fmt.Sprintf(" t%d blocked in %s;", t.id, opNames[t.op])
		}
	}
	if s.mainDone {
		s.fail("goroutine leak: the call returned but these goroutines can never run again:" + what)
	} else {
		s.fail("deadlock: no goroutine can make progress:" + what)
	}
}

// end hands the baton to the controller and parks the calling goroutine for ever.
//
//go:norace
func (s *sched) end(me *thread) {
	s.ended = true
	s.running = nil
	batonSet(-1)
	for {
		batonWait(-1000) // never granted
	}
}

// exit is called when a thread's function returns.
//
//go:norace
func (s *sched) exit(me *thread) {
	// everything a thread did happens before whatever the controller does after the execution
	raceReleaseMerge(unsafe.Pointer(&execTok))
	me.done = true
	if me.id == 0 {
		s.mainDone = true
	}
	all := true
	for _, t := range s.threads {
		if !t.done {
			all = false
		}
	}
	if all {
		s.ended = true
		s.running = nil
		batonSet(-1)
		return
	}
	next := s.pick(me)
	if next == nil {
		s.stuck()
		s.ended = true
		s.running = nil
		batonSet(-1)
		return
	}
	s.running = next
	batonSet(next.gid)
}

// ---- goroutines ------------------------------------------------------------------

// Go starts f as a new virtual thread.
//
//go:norace
func Go(f func()) {
	s, me := current()
	s.announce(me, opSpawn)
	t := newThread(len(s.threads))
	s.threads = append(s.threads, t)
	go threadMain(s, t, f)
}

func threadMain(s *sched, t *thread, f func()) {
	batonWait(t.gid)
	defer threadEnd(s, t)
	f()
}

//go:norace
func threadEnd(s *sched, t *thread) {
	if r := recover(); r != nil {
		buf := make([]byte, 2048)
		buf = buf[:runtime.Stack(buf, false)]
		s.fail(fmt.Sprintf("panic in goroutine t%d: %v\n%s", t.id, r, buf))
		t.done = true
		s.ended = true
		s.running = nil
		batonSet(-1)
		return
	}
	s.exit(t)
}

// ---- channels ------------------------------------------------------------------------

type item struct {
	v     any
	tok   byte // send -> receive edge
	back  byte // receive -> completion of the (unbuffered) send edge
	taken bool
	slot  *byte
}

type core struct {
	cap      int
	buf      []*item
	closed   bool
	closeTok byte
	free     []*byte // tokens of free buffer slots: k-th receive -> (k+cap)-th send edge
	waiters  []*waiter
}

//go:norace
func newCore(n int) *core {
	c := &core{cap: n}
	for i := 0; i < n; i++ {
		c.free = append(c.free, new(byte))
	}
	return c
}

//go:norace
func (c *core) uncommittedWaiter() *waiter {
	for _, w := range c.waiters {
		if w.committed == nil {
			return w
		}
	}
	return nil
}

//go:norace
func (c *core) removeWaiter(w *waiter) {
	// element-wise (no copy/append over the same array): runtime.slicecopy is
	// instrumented by the race detector even when called from a norace function
	n := 0
	for _, x := range c.waiters {
		if x != w {
			c.waiters[n] = x
			n++
		}
	}
	for k := n; k < len(c.waiters); k++ {
		c.waiters[k] = nil
	}
	c.waiters = c.waiters[:n]
}

//go:norace
func (c *core) send(v any) {
	s, me := current()
	me.ch = c
	s.announce(me, opSend)
	if c.closed {
		panic("send on closed channel")
	}
	it := &item{v: v}
	raceReleaseMerge(unsafe.Pointer(&it.tok))
	if c.cap > 0 {
		slot := c.free[0]
		c.free = c.free[1:]
		raceAcquire(unsafe.Pointer(slot))
		it.slot = slot
		c.buf = append(c.buf, it)
		return
	}
	// unbuffered: hand the item to a committed receiver, then wait until it was taken
	w := c.uncommittedWaiter()
	w.committed = c
	w.it = it
	me.it = it
	s.announce(me, opSendDone)
	raceAcquire(unsafe.Pointer(&it.back))
}

// recvFrom performs the receive part once the waiter's operation is enabled.
//
//go:norace
func (w *waiter) complete() (c *core, v any, ok bool) {
	for _, x := range w.chans {
		x.removeWaiter(w)
	}
	if w.committed != nil {
		it := w.it
		raceAcquire(unsafe.Pointer(&it.tok))
		raceReleaseMerge(unsafe.Pointer(&it.back))
		it.taken = true
		return w.committed, it.v, true
	}
	for _, x := range w.chans {
		if len(x.buf) > 0 {
			it := x.buf[0]
			x.buf = x.buf[1:]
			raceAcquire(unsafe.Pointer(&it.tok))
			raceReleaseMerge(unsafe.Pointer(it.slot))
			x.free = append(x.free, it.slot)
			return x, it.v, true
		}
	}
	for _, x := range w.chans {
		if x.closed {
			raceAcquire(unsafe.Pointer(&x.closeTok))
			return x, nil, false
		}
	}
	panic("vsched: receive completed while not enabled")
}

//go:norace
func (c *core) recv() (any, bool) {
	s, me := current()
	w := &waiter{t: me, chans: []*core{c}}
	c.waiters = append(c.waiters, w)
	me.w = w
	s.announce(me, opRecv)
	_, v, ok := w.complete()
	return v, ok
}

//go:norace
func (c *core) close() {
	s, me := current()
	me.ch = c
	s.announce(me, opClose)
	if c.closed {
		panic("close of closed channel")
	}
	raceReleaseMerge(unsafe.Pointer(&c.closeTok))
	c.closed = true
}

//go:norace
func select2(a, b *core) (int, any, bool) {
	s, me := current()
	w := &waiter{t: me, chans: []*core{a, b}}
	a.waiters = append(a.waiters, w)
	b.waiters = append(b.waiters, w)
	me.w = w
	s.announce(me, opSelect)
	// when both cases are ready Go chooses pseudo-randomly: make it an explicit choice
	ra := (w.committed == a) || (w.committed == nil && (len(a.buf) > 0 || a.closed))
	rb := (w.committed == b) || (w.committed == nil && (len(b.buf) > 0 || b.closed))
	if ra && rb && w.committed == nil {
		if s.choose(2, false, true) == 1 {
			w.chans = []*core{b, a}
		}
	}
	c, v, ok := w.complete()
	if c == a {
		return 0, v, ok
	}
	return 1, v, ok
}

// Chan is the typed face of a modelled channel.
type Chan[T any] struct{ c *core }

func NewChan[T any](n int) *Chan[T] { return &Chan[T]{newCore(n)} }

func (ch *Chan[T]) Send(v T) { ch.c.send(v) }

func (ch *Chan[T]) Recv() T {
	v, _ := ch.Recv2()
	return v
}

func (ch *Chan[T]) Recv2() (T, bool) {
	v, ok := ch.c.recv()
	if !ok {
		var zero T
		return zero, false
	}
	return v.(T), true
}

func (ch *Chan[T]) Close() { ch.c.close() }

// Select2 models a select statement with two receive cases and no default.
func Select2[A, B any](a *Chan[A], b *Chan[B]) (idx int, va A, vb B) {
	i, v, ok := select2(a.c, b.c)
	if i == 0 {
		if ok {
			va = v.(A)
		}
		return 0, va, vb
	}
	if ok {
		vb = v.(B)
	}
	return 1, va, vb
}

// ---- WaitGroup -------------------------------------------------------------------------------

type WaitGroup struct {
	n   int
	tok byte
}

//go:norace
func (wg *WaitGroup) Add(d int) {
	s, me := current()
	s.announce(me, opWgAdd)
	if d < 0 {
		raceReleaseMerge(unsafe.Pointer(&wg.tok))
	}
	wg.n += d
	if wg.n < 0 {
		panic("sync: negative WaitGroup counter")
	}
}

func (wg *WaitGroup) Done() { wg.Add(-1) }

//go:norace
func (wg *WaitGroup) Wait() {
	s, me := current()
	me.wg = wg
	s.announce(me, opWgWait)
	raceAcquire(unsafe.Pointer(&wg.tok))
}

// ---- Pool -----------------------------------------------------------------------------------------

type poolItem struct {
	v   any
	tok *byte
}

// Pool models sync.Pool: Get returns a pooled item or calls New; which of the two
// is an environment choice (the real pool may drop items at any garbage collection).
type Pool struct {
	New        func() any
	items      []poolItem
	registered bool
}

var pools []*Pool

//go:norace
func (p *Pool) register() {
	if !p.registered {
		p.registered = true
		pools = append(pools, p)
	}
}

//go:norace
func (p *Pool) Get() any {
	p.register()
	s, me := current()
	s.announce(me, opPool)
	if len(p.items) > 0 && s.choose(2, false, true) == 0 {
		it := p.items[len(p.items)-1]
		p.items = p.items[:len(p.items)-1]
		raceAcquire(unsafe.Pointer(it.tok))
		return it.v
	}
	if p.New == nil {
		return nil
	}
	return p.New()
}

//go:norace
func (p *Pool) Put(x any) {
	p.register()
	s, me := current()
	s.announce(me, opPool)
	tok := new(byte)
	raceReleaseMerge(unsafe.Pointer(tok))
	p.items = append(p.items, poolItem{x, tok})
}

// ---- misc -----------------------------------------------------------------------------------------------

//go:norace
func AtomicAddInt64(p *int64, d int64) int64 {
	s, me := current()
	s.announce(me, opAtomic)
	return atomic.AddInt64(p, d)
}

var numCPU = 2

// NumCPU is the seam for runtime.NumCPU().
func NumCPU() int { return numCPU }

// SetNumCPU sets what the library sees as runtime.NumCPU().
func SetNumCPU(n int) { numCPU = n }

// Yield is an explicit scheduling point for harness bodies (e.g. inside shim readers).
//
//go:norace
func Yield() {
	s, me := current()
	s.announce(me, opAtomic)
}
