package vsched

import (
	"fmt"
	"strings"
	"time"
	"unsafe"
)

// Failure describes a violating execution.
type Failure struct {
	What     string
	Schedule []int
	Trace    []string
}

// Result summarises an exploration.
type Result struct {
	Executions  int
	MaxPoints   int // largest number of decision points in one execution
	MaxSteps    int // largest number of scheduling points in one execution
	Bound       int
	Complete    bool // every schedule within the bound was executed
	Outcomes    map[string]int
	Failure     *Failure
	RaceChecked bool
	SampleTrace []string // the scheduling points of the last execution, as an example of what was explored
	SampleSched []int
}

// run executes body once under the given decision prefix.
//
//go:norace
func run(prefix []int, maxSteps int, body func() (string, string)) (s *sched, outcome string) {
	for _, p := range pools {
		p.items = nil
	}
	s = &sched{prefix: prefix, maxSteps: maxSteps}
	main := newThread(0)
	s.threads = []*thread{main}
	s.running = main
	cur = s
	var out, bad string
	go threadMain(s, main, func() {
		out, bad = body()
	})
	batonSet(main.gid)
	batonWait(-1)
	raceAcquire(unsafe.Pointer(&execTok))
	cur = nil
	if bad != "" {
		s.fail(bad)
	}
	return s, out
}

//go:norace
func cost(choices []int, points []pointInfo) int {
	c := 0
	for i, v := range choices {
		if v != 0 && (points[i].runningEnabled || points[i].env) {
			c++
		}
	}
	return c
}

// Explore runs body under every schedule with at most bound deviations
// (preemptions of an enabled thread, non-default environment answers).
// body returns (outcome label, failure text); it builds its own inputs.
// maxExec caps the number of executions (0 = no cap).
//
//go:norace
func Explore(bound, maxExec, maxSteps int, body func() (string, string)) Result {
	return ExploreUntil(bound, maxExec, maxSteps, time.Time{}, body)
}

// ExploreUntil is Explore with a wall-clock budget: hitting it ends the run with Complete=false
// (never a verdict; the completed bound is what is reported).
//
//go:norace
func ExploreUntil(bound, maxExec, maxSteps int, deadline time.Time, body func() (string, string)) Result {
	res := Result{Bound: bound, Outcomes: map[string]int{}, Complete: true, RaceChecked: RaceEnabled}
	stack := [][]int{nil}
	for len(stack) > 0 {
		prefix := stack[len(stack)-1]
		stack = stack[:len(stack)-1]
		if maxExec > 0 && res.Executions >= maxExec {
			res.Complete = false
			break
		}
		if !deadline.IsZero() && res.Executions%64 == 0 && time.Now().After(deadline) {
			res.Complete = false
			break
		}
		racesBefore := raceErrors()
		s, out := run(prefix, maxSteps, body)
		res.Executions++
		if len(s.points) > res.MaxPoints {
			res.MaxPoints = len(s.points)
		}
		if s.steps > res.MaxSteps {
			res.MaxSteps = s.steps
		}
		if s.failure == "" && raceErrors() > racesBefore {
			s.failure = "data race: the race detector reported unsynchronised conflicting accesses in this schedule (report on stderr)"
		}
		if s.failure != "" {
			res.Failure = &Failure{What: s.failure, Schedule: append([]int(nil), s.choices...), Trace: s.trace}
			res.Complete = false
			return res
		}
		res.Outcomes[out]++
		res.SampleTrace, res.SampleSched = s.trace, s.choices
		if len(s.choices) < len(prefix) {
			res.Failure = &Failure{What: fmt.Sprintf("HARNESS: execution consumed %d decisions, fewer than its prefix %v (nondeterministic body)", len(s.choices), prefix), Schedule: prefix, Trace: s.trace}
			res.Complete = false
			return res
		}
		base := 0
		for i := 0; i < len(prefix); i++ {
			if prefix[i] != 0 && (s.points[i].runningEnabled || s.points[i].env) {
				base++
			}
		}
		for i := len(s.choices) - 1; i >= len(prefix); i-- {
			c := base
			for k := len(prefix); k < i; k++ {
				_ = k // choices beyond the prefix are all 0 (default): no cost
			}
			extra := 0
			if s.points[i].runningEnabled || s.points[i].env {
				extra = 1
			}
			if c+extra > bound {
				continue
			}
			for alt := s.points[i].n - 1; alt >= 1; alt-- {
				np := make([]int, i+1)
				copy(np, s.choices[:i])
				np[i] = alt
				stack = append(stack, np)
			}
		}
	}
	return res
}

// Replay runs one recorded schedule and returns the failure text ("" if none).
//
//go:norace
func Replay(schedule []int, maxSteps int, body func() (string, string)) string {
	racesBefore := raceErrors()
	s, _ := run(schedule, maxSteps, body)
	if s.failure == "" && raceErrors() > racesBefore {
		return "data race reported by the race detector in this schedule"
	}
	return s.failure
}

func (f *Failure) String() string {
	tr := f.Trace
	if len(tr) > 60 {
		tr = tr[len(tr)-60:]
	}
	return fmt.Sprintf("%s | schedule %v | last steps: %s", f.What, f.Schedule, strings.Join(tr, " "))
}
